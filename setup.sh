#!/bin/sh
# offline set-up: make sure hypothesis is importable in the repository's venv
PY=${VERIF_PYTHON:-/venv/bin/python}
if "$PY" -c 'import hypothesis' 2>/dev/null; then
    echo "hypothesis present"
else
    "$PY" -m pip install --no-index --find-links /opt/veriftools/wheels hypothesis || exit 1
fi
"$PY" -c 'import sys; sys.path.insert(0, "/repo"); import edzed, hypothesis; print("edzed", edzed.__version__, "hypothesis", hypothesis.__version__)'
