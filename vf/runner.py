"""Runner: generated-input search + corpus replay + evidence + replay files.

A property module (vf/props/cXX.py) provides:

    ID, LEVEL ('exploration' | 'fault_enumeration'), RULE (text), ASSUMPTIONS (list)
    BUDGET = {'quick': n_examples, 'thorough': n_examples_per_shard}
    strategy(tier)        -> Hypothesis strategy of JSON-able case descriptors
    execute(case)         -> Result (violations, nontrivial flag, class labels, outcome)
    exhaustive(tier)      -> optional: (subdomain_text, iterable of cases) or None
    extra_strategies(tier)-> optional: list of (name, strategy, budget_factor)

The executor is a plain function of the case descriptor, so that a replay file
or a corpus file bypasses Hypothesis completely.
"""
import hashlib
import importlib
import json
import multiprocessing
import os
import sys
import time
import traceback

VERIF_DIR = os.path.dirname(os.path.dirname(os.path.abspath(__file__)))
REPO = os.environ.get('VERIF_REPO', '/repo')
NSHARDS = int(os.environ.get('VERIF_SHARDS', '16'))


class Result:
    """What the executor+oracle say about one case."""
    __slots__ = ('violations', 'nontrivial', 'classes', 'outcome', 'evals', 'nt_count')

    def __init__(self, violations=None, nontrivial=False, classes=(), outcome=None):
        self.violations = list(violations or [])   # [(clause, details)]
        self.nontrivial = bool(nontrivial)
        self.classes = list(classes)
        self.outcome = outcome
        self.evals = 1          # number of sub-cases evaluated by this case (batched enumerations)
        self.nt_count = 0       # batched enumerations: number of non-trivial sub-cases,
                                # distinct by construction (each enumerated exactly once)

    def fail(self, clause, details=None):
        self.violations.append((clause, details))


class ViolationFound(Exception):
    pass


def jdump(obj):
    return json.dumps(obj, sort_keys=True, default=repr)


def case_hash(case):
    return hashlib.sha1(jdump(case).encode()).hexdigest()


def load_known_findings():
    path = os.path.join(VERIF_DIR, 'known_findings.json')
    try:
        with open(path) as f:
            return json.load(f)
    except FileNotFoundError:
        return []


def _lookup(case, dotted):
    cur = case
    for part in dotted.split('.'):
        if isinstance(cur, list):
            cur = cur[int(part)]
        else:
            cur = cur[part]
    return cur


def match_known(known, prop, clause, case):
    """Return the matching *open* finding or None. 'fixed' entries match nothing."""
    for entry in known:
        if entry.get('status') != 'open' or entry.get('property') != prop:
            continue
        if entry.get('clause') != clause:
            continue
        try:
            # a list in 'match' means: any of these values
            if all((_lookup(case, k) in v) if isinstance(v, list) else (_lookup(case, k) == v)
                   for k, v in entry.get('match', {}).items()):
                return entry
        except (KeyError, IndexError, TypeError, ValueError):
            continue
    return None


class Collector:
    """Counts, class histogram, distinct non-trivial cases, samples."""
    MAX_SAMPLES = 8

    def __init__(self):
        self.evaluations = 0
        self.nontrivial = set()
        self.nt_enumerated = 0
        self.classes = {}
        self.samples = []
        self.known_hits = {}
        self.violations = []        # [(case, [(clause, details)...], origin)]
        self.sources = {}

    def record(self, case, res, source):
        self.evaluations += res.evals
        self.sources[source] = self.sources.get(source, 0) + res.evals
        for label in res.classes:
            self.classes[label] = self.classes.get(label, 0) + 1
        self.nt_enumerated += res.nt_count
        if res.nontrivial:
            h = case_hash(case)
            if h not in self.nontrivial:
                self.nontrivial.add(h)
                if len(self.samples) < self.MAX_SAMPLES:
                    self.samples.append({'case': case, 'outcome': res.outcome})
        elif not self.samples and self.evaluations > 50:
            self.samples.append({'case': case, 'outcome': res.outcome, 'trivial': True})

    def merge(self, other):
        self.evaluations += other['evaluations']
        self.nontrivial |= set(other['nontrivial'])
        self.nt_enumerated += other['nt_enumerated']
        for k, v in other['classes'].items():
            self.classes[k] = self.classes.get(k, 0) + v
        for k, v in other['sources'].items():
            self.sources[k] = self.sources.get(k, 0) + v
        for s in other['samples']:
            if len(self.samples) < self.MAX_SAMPLES:
                self.samples.append(s)
        for k, v in other['known_hits'].items():
            self.known_hits[k] = self.known_hits.get(k, 0) + v
        self.violations.extend(other['violations'])

    def export(self):
        return {
            'evaluations': self.evaluations, 'nontrivial': list(self.nontrivial),
            'nt_enumerated': self.nt_enumerated,
            'classes': self.classes, 'samples': self.samples, 'sources': self.sources,
            'known_hits': self.known_hits, 'violations': self.violations}


def load_module(prop_id):
    return importlib.import_module(f'vf.props.{prop_id.lower()}')


def run_one(mod, case, coll, known, source):
    """Execute a case; return the list of *new* violations (known ones filtered)."""
    try:
        res = mod.execute(case)
    except Exception as err:
        res = classify_exception(mod, case, err)
    coll.record(case, res, source)
    new = []
    for clause, details in res.violations:
        entry = match_known(known, mod.ID, clause, case)
        if entry is not None:
            key = entry.get('what', clause)
            coll.known_hits[key] = coll.known_hits.get(key, 0) + 1
        else:
            new.append((clause, details))
    return new


def classify_exception(mod, case, err):
    """An exception escaping the executor: edzed's fault or the harness' fault?

    Bucketing by the innermost frame that belongs to edzed or to the harness.
    Innermost in edzed => the library raised where the harness (written and
    run against the unchanged tree) expects none => violation.  Otherwise a
    harness error (exit 2).
    """
    from .vloop import HarnessError
    if isinstance(err, HarnessError):
        # keep the case for debugging the harness
        d = os.path.join(VERIF_DIR, 'replays', mod.ID)
        os.makedirs(d, exist_ok=True)
        with open(os.path.join(d, 'harness_error_' + case_hash(case)[:12] + '.json'), 'w') as f:
            json.dump({'property': mod.ID, 'harness_error': repr(err), 'case': case}, f, default=repr)
        raise err
    tb = traceback.extract_tb(err.__traceback__)
    innermost = None
    for frame in tb:
        fn = frame.filename
        if '/edzed/' in fn and '/vf/' not in fn:
            innermost = 'edzed'
        elif '/vf/' in fn:
            innermost = 'vf'
    if innermost == 'edzed':
        res = Result(nontrivial=False)
        res.fail(f'{mod.ID}.unexpected_exception',
                 ''.join(traceback.format_exception_only(type(err), err)).strip()
                 + ' @ ' + f'{tb[-1].filename}:{tb[-1].lineno}')
        return res
    raise err


def run_hypothesis(mod, tier, seed, budget, coll, known, strategy=None, label='hypothesis'):
    """Random search; on failure let Hypothesis shrink; return (case, violations) or None."""
    import hypothesis
    from hypothesis import given, settings, HealthCheck, Phase
    strat = strategy if strategy is not None else mod.strategy(tier)
    last_failure = []

    @hypothesis.seed(seed)
    @settings(max_examples=budget, database=None, deadline=None,
              report_multiple_bugs=False, derandomize=False,
              suppress_health_check=list(HealthCheck),
              phases=(Phase.generate, Phase.shrink),
              verbosity=hypothesis.Verbosity.quiet)
    @given(strat)
    def search(case):
        new = run_one(mod, case, coll, known, label)
        if new:
            last_failure[:] = [(case, new)]
            raise ViolationFound(new[0][0])

    try:
        search()
    except ViolationFound:
        return last_failure[0]
    except hypothesis.errors.Flaky:
        # e.g. the set-iteration order (DESIGN 2.6) made a failure irreproducible
        if last_failure:
            return last_failure[0]
        raise
    return None


def run_exhaustive(mod, tier, coll, known, shard=0, nshards=1):
    ex = getattr(mod, 'exhaustive', None)
    if ex is None:
        return None, None
    spec = ex(tier)
    if spec is None:
        return None, None
    text, cases = spec
    for i, case in enumerate(cases):
        if i % nshards != shard:
            continue
        new = run_one(mod, case, coll, known, 'exhaustive')
        if new:
            return text, (case, new)
    return text, None


def _shard_entry(args):
    prop_id, tier, seed, shard, nshards = args
    try:
        import logging
        logging.disable(logging.CRITICAL)
        mod = load_module(prop_id)
        known = load_known_findings()
        coll = Collector()
        text, fail = run_exhaustive(mod, tier, coll, known, shard, nshards)
        if fail is None:
            for name, strat, budget in strategies_for(mod, tier):
                fail = run_hypothesis(
                    mod, tier, seed * 1000 + shard, budget, coll, known, strat, name)
                if fail is not None:
                    break
        if fail is not None:
            coll.violations.append((fail[0], fail[1], f'shard{shard}'))
        out = coll.export()
        out['exhaustive_text'] = text
        return out
    except BaseException as err:
        return {'harness_error': ''.join(traceback.format_exception(err))}


def strategies_for(mod, tier):
    budget = mod.BUDGET[tier]
    out = [('hypothesis', mod.strategy(tier), budget)]
    extra = getattr(mod, 'extra_strategies', None)
    if extra is not None:
        for name, strat, factor in extra(tier):
            out.append((name, strat, max(1, int(budget * factor))))
    return out


def write_replay(mod, case, violations, seed, tier):
    d = os.path.join(VERIF_DIR, 'replays', mod.ID)
    os.makedirs(d, exist_ok=True)
    path = os.path.join(d, case_hash(case)[:16] + '.json')
    with open(path, 'w') as f:
        json.dump({
            'property': mod.ID, 'clause': violations[0][0],
            'violations': [[c, d_] for c, d_ in violations],
            'case': case, 'seed': seed, 'tier': tier}, f, indent=1, default=repr)
    return os.path.relpath(path, VERIF_DIR)


def write_evidence(mod, tier, seed, coll, wall_s, nviol, exhaustive_text, extra=None):
    evdir = os.environ.get('VERIF_EVIDENCE_DIR') or os.path.join(VERIF_DIR, 'evidence')
    os.makedirs(evdir, exist_ok=True)
    total = max(1, coll.evaluations)
    hist = {k: f"{v} ({100.0 * v / total:.1f}%)" for k, v in sorted(coll.classes.items())}
    coverage = {
        'evaluations': coll.evaluations,
        'distinct_nontrivial': len(coll.nontrivial) + coll.nt_enumerated,
        'rule': mod.RULE,
        'samples': coll.samples[:Collector.MAX_SAMPLES],
        'class_histogram': hist,
        'case_sources': coll.sources,
        'known_findings_hit': coll.known_hits,
        'exhaustive': bool(exhaustive_text),
    }
    if exhaustive_text:
        coverage['exhaustive_subdomain'] = exhaustive_text
    if extra:
        coverage.update(extra)
    ev = {
        'property_id': mod.ID, 'tier': tier, 'seed': seed, 'level': mod.LEVEL,
        'coverage': coverage,
        'assumptions': list(mod.ASSUMPTIONS) + [
            'edzed imported from ' + REPO + ' (fresh interpreter per check)',
            'CPython 3.12 asyncio semantics; virtual-time loop (vf/vloop.py)',
        ],
        'wall_s': round(wall_s, 3), 'violations': nviol,
    }
    path = os.path.join(evdir, f'{mod.ID}.json')
    tmp = path + '.tmp'
    with open(tmp, 'w') as f:
        json.dump(ev, f, indent=1, default=repr)
    os.replace(tmp, path)


def corpus_cases(prop_id):
    d = os.path.join(VERIF_DIR, 'corpus', prop_id)
    if not os.path.isdir(d):
        return
    for fn in sorted(os.listdir(d)):
        if fn.endswith('.json'):
            with open(os.path.join(d, fn)) as f:
                data = json.load(f)
            yield fn, data.get('case', data)


def main_check(prop_id, tier, replay=None):
    import logging
    logging.disable(logging.CRITICAL)
    seed = int(os.environ.get('VERIF_SEED', '1'))
    t0 = time.time()
    mod = load_module(prop_id)
    known = load_known_findings()
    coll = Collector()
    failure = None
    exhaustive_text = None

    if replay is not None:
        with open(replay) as f:
            data = json.load(f)
        case = data.get('case', data)
        new = run_one(mod, case, coll, known, 'replay')
        if new:
            for clause, details in new:
                print(f"  clause {clause}: {details}")
            print(f"VIOLATION property={mod.ID} replay={replay}")
            return 1
        print(f"replay {replay}: property {mod.ID} holds on this case")
        return 0

    # 1. regression corpus
    for fn, case in corpus_cases(mod.ID):
        new = run_one(mod, case, coll, known, 'corpus')
        if new and failure is None:
            failure = (case, new, f'corpus/{mod.ID}/{fn}')

    # 2. search
    if failure is None:
        if tier == 'quick':
            # finite sub-domains small enough for every run are enumerated first
            exhaustive_text, fail = run_exhaustive(mod, tier, coll, known)
            if fail is not None:
                failure = (fail[0], fail[1], 'exhaustive')
            for name, strat, budget in ([] if failure else strategies_for(mod, tier)):
                fail = run_hypothesis(mod, tier, seed, budget, coll, known, strat, name)
                if fail is not None:
                    failure = (fail[0], fail[1], name)
                    break
        else:
            ctx = multiprocessing.get_context('fork')
            limit = int(os.environ.get('VERIF_THOROUGH_TIMEOUT', '5400'))
            with ctx.Pool(NSHARDS) as pool:
                job = pool.map_async(
                    _shard_entry,
                    [(prop_id, tier, seed, s, NSHARDS) for s in range(NSHARDS)])
                try:
                    parts = job.get(timeout=limit)
                except multiprocessing.TimeoutError:
                    pool.terminate()
                    print(f"HARNESS-ERROR: the thorough tier did not finish within {limit} s "
                          "(inconclusive, not a violation)")
                    return 2
            for part in parts:
                if 'harness_error' in part:
                    print("HARNESS-ERROR (shard):\n" + part['harness_error'])
                    return 2
                exhaustive_text = exhaustive_text or part.pop('exhaustive_text', None)
                coll.merge(part)
            if coll.violations:
                case, viol, origin = coll.violations[0]
                failure = (case, [tuple(v) for v in viol], origin)

    # 3. report
    for entry in known:
        if entry.get('status') == 'open' and entry.get('property') == mod.ID:
            print(f"KNOWN-FINDING: property={mod.ID} {entry.get('what', entry.get('clause'))}")
    nviol = 0 if failure is None else 1
    write_evidence(mod, tier, seed, coll, time.time() - t0, nviol, exhaustive_text)
    total = coll.evaluations
    print(f"{mod.ID} tier={tier} seed={seed}: {total} cases, "
          f"{len(coll.nontrivial) + coll.nt_enumerated} distinct non-trivial, "
          f"{time.time() - t0:.1f}s")
    if failure is not None:
        case, viol, origin = failure
        path = write_replay(mod, case, viol, seed, tier)
        for clause, details in viol[:5]:
            print(f"  clause {clause}: {details}")
        print(f"  found by: {origin}")
        print(f"VIOLATION property={mod.ID} replay={path}")
        return 1
    return 0


def main(argv=None):
    import argparse
    ap = argparse.ArgumentParser(prog='check')
    ap.add_argument('property')
    ap.add_argument('--tier', default=os.environ.get('VERIF_TIER', 'quick'),
                    choices=['quick', 'thorough'])
    ap.add_argument('--replay')
    args = ap.parse_args(argv)
    try:
        return main_check(args.property.upper(), args.tier, args.replay)
    except Exception as err:
        print("HARNESS-ERROR: " + ''.join(traceback.format_exception(err)))
        return 2
