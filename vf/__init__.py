"""Property-based verification machinery for xitop/edzed (see DESIGN.md)."""
