"""Shared probes and circuit driving helpers (DESIGN.md 2.3)."""
import asyncio
import copy
import datetime as _dt

import edzed

from . import vloop
from . import vwall
from .vloop import quiesce   # re-export

UNDEF = edzed.UNDEF


def reset():
    edzed.reset_circuit()
    return edzed.get_circuit()


def exc_name(err):
    return None if err is None else type(err).__name__


class Recorder(edzed.SBlock):
    """Accepts any event; appends (etype, deep copy of data) to x_log (a list)."""

    def init_regular(self):
        self.set_output(0)

    def _event(self, etype, data):
        log = self.x_log
        rec = {'dest': self.name, 'etype': etype, 'data': dict(data)}
        hook = getattr(self, 'x_hook', None)
        if hook is not None:
            hook(rec)
        log.append(rec)
        return ('rec', self.name, len(log))


class Src(edzed.SBlock):
    """A source whose 'set' event assigns the output."""

    def init_regular(self):
        init = getattr(self, 'x_init', UNDEF)
        if init is not UNDEF:
            self.set_output(init)

    def _event_set(self, *, value, **_data):
        self.set_output(value)
        return True


class DeepCopyDict(dict):
    """Persistent storage that copies on write/read like shelve would."""

    def __init__(self, *args, **kwargs):
        super().__init__()
        self.writes = []        # [(key, value copy)]
        for k, v in dict(*args, **kwargs).items():
            dict.__setitem__(self, k, copy.deepcopy(v))

    def __setitem__(self, key, value):
        value = copy.deepcopy(value)
        self.writes.append(('set', key, value))
        dict.__setitem__(self, key, value)

    def __getitem__(self, key):
        return copy.deepcopy(dict.__getitem__(self, key))

    def __delitem__(self, key):
        self.writes.append(('del', key, None))
        dict.__delitem__(self, key)

    def pop(self, key, *default):
        if key in self:
            self.writes.append(('del', key, None))
        return dict.pop(self, key, *default)

    def snapshot(self):
        return {k: copy.deepcopy(v) for k, v in dict.items(self)}


class Running:
    """Start the current circuit on the running virtual loop and wait for init.

        async with Running() as sim:     # sim.error_at_init set if the init failed
            ...
    """

    def __init__(self, wait=True):
        self.circuit = edzed.get_circuit()
        self.task = None
        self.init_error = None
        self.wait = wait

    async def __aenter__(self):
        self.task = asyncio.create_task(self.circuit.run_forever())
        if self.wait:
            try:
                await self.circuit.wait_init()
            except Exception as err:        # EdzedInvalidState etc.
                self.init_error = err
        return self

    async def __aexit__(self, *exc):
        await self.stop()
        return False

    async def stop(self):
        """shutdown(); return the exception it raised (None for a normal stop)."""
        if self.task is None:
            return None
        try:
            await self.circuit.shutdown()
        except asyncio.CancelledError:
            raise
        except BaseException as err:     # the simulation error is re-raised
            return err
        finally:
            if not self.task.done():
                self.task.cancel()
        return None


DEFAULT_WALL_START = _dt.datetime(2026, 3, 10, 12, 0, 0)


def run_case(coro_func, *args, wall_start=DEFAULT_WALL_START, read_latency_us=0,
             local_offset_s=0, **kwargs):
    """Run an async scenario on a fresh virtual loop with a virtual wall clock.

    The Wall object is available as loop.vwall.
    """
    def setup(loop):
        wall = vwall.Wall(loop.vclock, wall_start, read_latency_us, local_offset_s)
        loop.vwall = wall
        vwall.set_wall(wall)
    try:
        return vloop.run(coro_func, *args, setup=setup, **kwargs)
    finally:
        vwall.clear_wall()
