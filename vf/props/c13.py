"""C13 - interval specifications mean the same in every accepted notation."""
import datetime as dt

from hypothesis import strategies as st

from edzed.blocklib import timeinterval as ti
import edzed

from ..runner import Result

ID = 'C13'
LEVEL = 'exploration'
BUDGET = {'quick': 2500, 'thorough': 12000}
RULE = ("A case is one numeric interval (1..4 distinct ranges of time-of-day / date / date-time "
        "endpoints on an h/m/s grid plus random microseconds, all days of a leap year, random "
        "date-times 1900..2100) rendered in 2..4 generated notations (traditional, ISO basic/"
        "extended, month names cut/cased, day/month order, separators '-',' - ','/', delimiters "
        "',' ';', trailing delimiter, whitespace, integer sequences of every allowed length, "
        "mixed string/sequence ranges, sets) plus probe moments (endpoints, +-1 us / +-1 day "
        "neighbours, random); or one malformed specification from a grammar of invalid inputs (incl. generated strings with digits glued to both sides of a month name or time of day); "
        "or a TimeDate.parse/TimeSpan.parse call; or a string glued from tokens of the notations (accepted: well-formed normal form surviving both round trips; refused: ValueError/TypeError). Thorough adds all 366^2 date ranges x 366 "
        "days and all 1440^2 minute-grid time ranges x 6 boundary probes. Non-trivial = interval "
        "with a wrapping or equal-endpoint range or >=2 ranges, rendered in >=2 different "
        "notation families; malformed cases count as non-trivial; distinct by descriptor.")
ASSUMPTIONS = [
    "renderers avoid the two documented ambiguities (bare '-' separator with hyphenated dates; "
    "decimal comma with comma delimiter)",
    "hour-only ISO times ('T12', '12') are valid per time.fromisoformat and not in the negative set",
    "ranges of one interval are distinct (duplicates would make list and set inputs differ legitimately)",
]

MONTHS = ('???', 'January', 'February', 'March', 'April', 'May', 'June', 'July', 'August',
          'September', 'October', 'November', 'December')
MDAYS = (0, 31, 29, 31, 30, 31, 30, 31, 31, 30, 31, 30, 31)
US_DAY = 86400 * 10 ** 6

# ---------------------------------------------------------------- numeric domain
grid_time = st.tuples(
    st.integers(0, 23), st.sampled_from([0, 0, 1, 15, 30, 45, 59]), st.sampled_from([0, 0, 0, 1, 30, 59]),
    st.one_of(st.just(0), st.just(0), st.integers(0, 999999),
              st.sampled_from([1, 500000, 999999, 100, 120000]))).map(list)
any_date = st.integers(1, 12).flatmap(
    lambda m: st.integers(1, MDAYS[m]).map(lambda d: [m, d]))


@st.composite
def any_datetime(draw):
    y = draw(st.sampled_from([1900, 1999, 2000, 2020, 2024, 2025, 2026, 2030, 2100]))
    m = draw(st.integers(1, 12))
    leap = y % 4 == 0 and (y % 100 != 0 or y % 400 == 0)
    dmax = 28 if (m == 2 and not leap) else MDAYS[m]
    d = draw(st.integers(1, dmax))
    return [y, m, d] + draw(grid_time)


# ---------------------------------------------------------------- renderers
def pad(draw, n):
    return f"{n:02d}" if n >= 10 or draw(st.booleans()) else str(n)


def frac_digits(draw, us):
    digits = f"{us:06d}".rstrip('0')
    extra = draw(st.integers(0, 6 - len(digits)))
    return digits + '0' * extra


def r_time(draw, t, allow_seq=True, iso_ok=True):
    """-> (spec, family, uses_comma)"""
    h, m, s, us = t
    styles = ['trad']
    if iso_ok:
        styles += ['iso_ext', 'iso_basic']
        if m == s == us == 0:
            styles.append('iso_hour')
    if allow_seq:
        styles.append('seq')
    style = draw(st.sampled_from(styles))
    comma = False
    if style == 'seq':
        minlen = 4 if us else 3 if s else 2 if m else 1
        n = draw(st.integers(minlen, 4))
        seq = [h, m, s, us][:n]
        return (seq, 'seq', False)
    if style == 'trad':
        out = f"{pad(draw, h)}:{pad(draw, m)}"
        if s or us or draw(st.booleans()):
            out += f":{pad(draw, s)}"
            if us:
                comma = draw(st.booleans())
                out += (',' if comma else '.') + frac_digits(draw, us)
        return (out, 'trad', comma)
    if style == 'iso_hour':
        return (draw(st.sampled_from(['T', ''])) + f"{h:02d}" if draw(st.booleans()) else f"T{h:02d}",
                'iso', False)
    colon = ':' if style == 'iso_ext' else ''
    out = f"{h:02d}{colon}{m:02d}"
    if s or us or draw(st.booleans()):
        out += f"{colon}{s:02d}"
        if us:
            comma = draw(st.booleans())
            out += (',' if comma else '.') + frac_digits(draw, us)
    if style == 'iso_basic' or draw(st.booleans()):
        out = 'T' + out
    return (out, 'iso', comma)


def month_name(draw, mo):
    name = MONTHS[mo]
    cut = name[:draw(st.integers(3, len(name)))]
    how = draw(st.sampled_from(['lower', 'upper', 'cap', 'asis', 'swap']))
    return {'lower': cut.lower(), 'upper': cut.upper(), 'cap': cut.capitalize(),
            'asis': cut, 'swap': cut.swapcase()}[how]


def r_date(draw, d):
    """-> (spec, family, has_hyphen)"""
    mo, day = d
    style = draw(st.sampled_from([
        'mon d', 'd mon', 'd.mon', 'mon. d', 'd. mon.', 'mond', 'dmon', 'isob', 'isoe', 'seq']))
    if style == 'seq':
        return ([mo, day], 'seq')
    if style == 'isob':
        return (f"--{mo:02d}{day:02d}", 'iso')
    if style == 'isoe':
        return (f"--{mo:02d}-{day:02d}", 'iso')
    mon = month_name(draw, mo)
    ds = pad(draw, day)
    out = {'mon d': f"{mon} {ds}", 'd mon': f"{ds} {mon}", 'd.mon': f"{ds}.{mon}",
           'mon. d': f"{mon}. {ds}", 'd. mon.': f"{ds}. {mon}.", 'mond': f"{mon}{ds}",
           'dmon': f"{ds}{mon}"}[style]
    return (out, 'trad')


def r_datetime(draw, v):
    y, mo, d, h, mi, s, us = v
    style = draw(st.sampled_from(['tokens', 'ymd', 'ymond', 'iso_ext', 'iso_basic', 'seq']))
    if style == 'seq':
        minlen = 7 if us else 6 if s else 5
        n = draw(st.integers(minlen, 7))
        return (v[:n], 'seq', False)
    if style in ('iso_ext', 'iso_basic'):
        ext = style == 'iso_ext'
        date = f"{y:04d}-{mo:02d}-{d:02d}" if ext else f"{y:04d}{mo:02d}{d:02d}"
        colon = ':' if ext else ''
        tm = f"{h:02d}{colon}{mi:02d}"
        comma = False
        if s or us or draw(st.booleans()):
            tm += f"{colon}{s:02d}"
            if us:
                comma = draw(st.booleans())
                tm += (',' if comma else '.') + frac_digits(draw, us)
        return (f"{date}T{tm}", 'iso', comma)
    tm, _, comma = r_time(draw, [h, mi, s, us], allow_seq=False, iso_ok=False)
    if style == 'ymd':
        date = f"{y:04d}-{mo:02d}-{d:02d}"
        parts = [date, tm]
    elif style == 'ymond':
        date = f"{y:04d}-{month_name(draw, mo)}-{d:02d}"
        parts = [date, tm]
    else:
        mon = month_name(draw, mo) + draw(st.sampled_from(['', '', '.']))
        day = pad(draw, d) + draw(st.sampled_from(['', '', '.']))
        parts = [f"{y:04d}", mon, day, tm]
    parts = draw(st.permutations(parts))
    gap = draw(st.sampled_from([' ', ' ', '  ']))
    return (gap.join(parts), 'trad', comma)


def r_range(draw, kind, rng):
    """-> (spec, families set, uses_comma)"""
    rend = {'time': r_time, 'date': r_date, 'datetime': r_datetime}[kind]
    a = rend(draw, rng[0])
    b = rend(draw, rng[1])
    fams = {a[1], b[1]}
    comma = (len(a) > 2 and a[2]) or (len(b) > 2 and b[2])
    if isinstance(a[0], str) and isinstance(b[0], str) and draw(st.integers(0, 3)) > 0:
        if kind == 'date' and rng[0] == rng[1] and draw(st.booleans()):
            return (a[0], fams, comma)
        seps = ['/', ' - ', ' / ', '/ ', '  -  ']
        if '-' not in a[0] and '-' not in b[0]:
            seps += ['-', '-', ' -', '- ']
        sep = draw(st.sampled_from(seps))
        lead = draw(st.sampled_from(['', '', ' ']))
        return (f"{lead}{a[0]}{sep}{b[0]}{lead}", fams, comma)
    # sequence-type range: endpoints may be strings or sequences
    return ([a[0], b[0]], fams | {'seqrange'}, comma)


def r_interval(draw, kind, ranges):
    order = draw(st.permutations(ranges))
    rendered = [r_range(draw, kind, r) for r in order]
    fams = set().union(*[r[1] for r in rendered]) if rendered else set()
    comma = any(r[2] for r in rendered)
    all_str = all(isinstance(r[0], str) for r in rendered)
    if all_str and draw(st.integers(0, 2)) > 0:
        delim = ';' if comma or draw(st.booleans()) else ','
        d = draw(st.sampled_from([delim, delim + ' ', ' ' + delim + ' ']))
        text = d.join(r[0] for r in rendered)
        if rendered and ((comma and len(rendered) == 1) or draw(st.booleans())):
            text += delim + draw(st.sampled_from(['', ' ']))
        return {'spec': text, 'fams': sorted(fams | {'str:' + delim})}
    if all_str and comma is False and draw(st.integers(0, 4)) == 0:
        return {'set': [r[0] for r in rendered], 'fams': sorted(fams | {'set'})}
    container = draw(st.sampled_from(['list', 'tuple']))
    return {'spec': [r[0] for r in rendered], 'tuple': container == 'tuple',
            'fams': sorted(fams | {'seq-interval'})}


@st.composite
def interval_cases(draw):
    kind = draw(st.sampled_from(['time', 'date', 'datetime']))
    ep = {'time': grid_time, 'date': any_date, 'datetime': any_datetime()}[kind]

    def mkrange(d):
        a = d(ep)
        mode = d(st.integers(0, 5))
        if mode == 0:
            return [a, list(a)]          # equal endpoints
        return [a, d(ep)]
    n = draw(st.integers(0, 4))
    ranges = []
    for _ in range(n):
        r = mkrange(draw)
        if r not in ranges:
            ranges.append(r)
    notations = [r_interval(draw, kind, ranges) for _ in range(draw(st.integers(2, 4)))]
    probes = draw(st.lists(ep, max_size=4))
    return {'k': 'interval', 'kind': kind, 'ranges': ranges, 'notations': notations, 'probes': probes}


BAD = {
    'time': [
        ('24:00-1:00', 'hour 24'), ('12:60 - 13:00', 'minute 60'), ('12:30:60/13:00', 'second 60'),
        ('1:00-2:00-3:00', 'three endpoints'), ('12:00', 'missing endpoint'), ('12:00-', 'missing endpoint'),
        ('-12:00', 'missing endpoint'), ('ab:cd-1:00', 'garbage'), ('12:30+01:00/13:00', 'time zone'),
        ('T12:30Z/T13:00', 'time zone'), ('12:30Z - 13:00Z', 'time zone'), ('12:30+00:00/13:00', 'time zone'),
        ('12:30-00:00/13:00', 'time zone'), ([['10:00Z', [11, 30]]], 'time zone'), ('1:2:3:4-5:00', 'too many fields'), ('12h30-13:00', 'garbage'),
        ([[[24, 0], [1, 0]]], 'hour 24'), ([[[12, 60], [1, 0]]], 'minute 60'),
        ([[[], [1, 0]]], 'sequence of wrong length'), ([[[1, 2, 3, 4, 5], [1, 0]]], 'sequence of wrong length'),
        ([[[1, 0]]], 'missing endpoint'), ([[[1, 0], [2, 0], [3, 0]]], 'three endpoints'),
        (5, 'non-sequence'), ([5], 'non-sequence'), ([[5, 6]], 'non-sequence endpoint'), (None, 'non-sequence'),
        ([[[1, 0, 0, 1000000], [2, 0]]], 'microsecond out of range'), ('1:00/2:00/3:00', 'three endpoints'),
        ('25:00 - 26:00', 'hour 25'), ([['12:00']], 'missing endpoint'),
    ],
    'date': [
        ('Feb 30', 'Feb 30'), ('Fe 3', '2-letter month'), ('Foo 3', 'unknown month'), ('Apr 31', 'Apr 31'),
        ('--1301', 'month 13'), ('--0230', 'Feb 30'), ('Mar', 'missing day'), ('3', 'missing month'),
        ('Mar 3 - Mar 4 - Mar 5', 'three endpoints'), ('Mar 3 / Mar 4 / Mar 5', 'three endpoints'),
        ('Mar 3 4', 'extra token'), ('Mar 0', 'day 0'), ('Marchx 3', 'unknown month'), ('Ju 5', '2-letter month'),
        ([[[13, 1], [1, 1]]], 'month 13'), ([[[2, 30], [3, 1]]], 'Feb 30'), ([[[1], [1, 2]]], 'sequence of wrong length'),
        ([[[1, 2, 3], [1, 2]]], 'sequence of wrong length'), (5, 'non-sequence'), ([5], 'non-sequence'),
        ([[[1, 1], [1, 2], [1, 3]]], 'three endpoints'), ('Mar 32', 'day 32'), ('2020 Mar 3', 'extra year'),
        ('Mar 3 12:00', 'extra time'), ([[]], 'empty range'),
        ('1jun5', 'digits on both sides of the month'), ('2DEC4', 'digits on both sides of the month'),
        ('Mar 1 - 3apr0', 'digits on both sides of the month'), ('1 jun 5', 'extra token'),
        ('1.jun.5', 'extra token'), ('12 3', 'missing month'), ('jun', 'missing day'), ('1 jun jul', 'two months'),
    ],
    'datetime': [
        ('2020-02-30 12:00 / 2020-03-01 12:00', 'Feb 30'), ('2021 Feb 29 1:00 / 2021 Mar 1 1:00', 'Feb 29 in a common year'),
        ('2020 Mar 1 / 2020 Mar 2 12:00', 'missing time'), ('Mar 1 12:00 / 2020 Mar 2 12:00', 'missing year'),
        ('2020-03-01T12:00+00:00/2020-03-02T12:00', 'time zone'),
        ('2020-03-01T12:00Z/2020-03-02T12:00Z', 'time zone'), ('2020-03-01T12:00+02:00/2020-03-02T12:00', 'time zone'), ('2020 Mar 1 12:00', 'missing endpoint'),
        ('2020 1 12:00 / 2020 Mar 2 12:00', 'missing month'), ('2020 Mar 12:00 / 2020 Mar 2 12:00', 'missing day'),
        ('2020 Mar 1 24:00 / 2020 Mar 2 12:00', 'hour 24'), ('2020 Mar 1 2 12:00 / 2020 Mar 2 12:00', 'extra token'),
        ('2020-03-01T12:00/2020-03-02T12:00/2020-03-03T12:00', 'three endpoints'),
        ([[[2020, 3, 1, 12], [2020, 3, 2, 12, 0]]], 'sequence of wrong length'),
        ([[[2020, 3, 1, 12, 0, 0, 0, 0], [2020, 3, 2, 12, 0]]], 'sequence of wrong length'),
        ([[[2020, 13, 1, 12, 0], [2020, 3, 2, 12, 0]]], 'month 13'),
        ([[[2021, 2, 29, 12, 0], [2021, 3, 2, 12, 0]]], 'Feb 29 in a common year'),
        ([[[2020, 3, 1, 12, 0]]], 'missing endpoint'), (5, 'non-sequence'), ([5], 'non-sequence'),
        ('2010:0024 jul 5 / 2024-07-16 10:00', 'time of day inside the year'),
        ('20jul24 5 10:00 / 2024-07-16 10:00', 'month inside the year'),
        ('2024 1jul5 10:00 / 2024-07-16 10:00', 'digits on both sides of the month'),
        ('2020-Fo-01 12:00 / 2020-03-02 12:00', '2-letter month'), ('20-03-01 12:00 / 2020-03-02 12:00', 'short year'),
    ],
}


@st.composite
def bad_cases(draw):
    kind = draw(st.sampled_from(['time', 'date', 'datetime']))
    idx = draw(st.integers(0, len(BAD[kind]) - 1))
    wrap = draw(st.sampled_from(['plain', 'with_valid']))
    return {'k': 'bad', 'kind': kind, 'idx': idx, 'wrap': wrap}


@st.composite
def glued_cases(draw):
    """malformed traditional strings in which a month name or a time of day has digits on both sides:
    taking the token out must not glue its neighbours into one number"""
    kind = draw(st.sampled_from(['date', 'date', 'datetime']))
    mo = draw(st.integers(1, 12))
    mon = month_name(draw, mo)
    a = str(draw(st.integers(0, 31)))
    b = str(draw(st.integers(0, 31)))
    if kind == 'date':
        spec = a + mon + b
        if draw(st.booleans()):
            spec = draw(st.sampled_from(['Mar 1 - ', 'jan 5 / ', '1.2. - '])) + spec
    else:
        hm = f"{draw(st.integers(0, 23))}:{draw(st.integers(0, 59)):02d}"
        shape = draw(st.integers(0, 2))
        if shape == 0:
            spec = f"20{hm}24 {mon} 5"                  # time of day inside the year
        elif shape == 1:
            spec = f"2024 {a}{mon}{b} {hm}"             # month between two numbers
        else:
            spec = f"20{mon}24 {a} {hm}"                # month inside the year
        spec += ' / 2030-07-16 10:00'
    return {'k': 'glued', 'kind': kind, 'spec': spec}


_SOUP_TOK = {
    'time': st.one_of(st.integers(0, 61).map(str), st.integers(0, 61).map(lambda n: f"{n:02d}"),
                      st.sampled_from([':', ':', ':', '.', ',', ';', '-', ' - ', '/', ' ', 'T', 'Z', '+', '000001',
                                       '1230', '123059', '5', '24', '60'])),
    'date': st.one_of(st.integers(0, 32).map(str), st.integers(0, 32).map(lambda n: f"{n:02d}"),
                      st.sampled_from(['jan', 'Feb', 'MAR', 'apr.', 'may', 'june', 'Ju', 'sept', 'x', '.', '-', '--',
                                       ' - ', '/', ',', ';', ' ', ' ', '0229', '1301'])),
}
_SOUP_TOK['datetime'] = st.one_of(_SOUP_TOK['time'], _SOUP_TOK['date'],
                                  st.sampled_from(['2024', '1999', '2024-02-29', '20240229', '24', '12:30']))


@st.composite
def soup_cases(draw):
    """strings glued from the tokens of the notations: whatever is accepted must be a well-formed interval
    that survives both round trips, whatever is refused must be refused with ValueError / TypeError"""
    kind = draw(st.sampled_from(['time', 'date', 'datetime']))
    if draw(st.integers(0, 4)) == 0:
        toks = draw(st.lists(_SOUP_TOK[kind], min_size=1, max_size=12))
        return {'k': 'soup', 'kind': kind, 'spec': ''.join(toks)}
    # a rendered valid interval, damaged in 0-3 places (characters inserted, deleted, replaced, swapped)
    base = draw(interval_cases_of(kind))
    text = None
    for _ in range(4):
        spec = base['notation'].get('spec')
        if isinstance(spec, str):
            text = spec
            break
        base = draw(interval_cases_of(kind))
    if text is None:
        text = ''
    chars = list(text)
    for _ in range(draw(st.integers(0, 3))):
        op = draw(st.integers(0, 3))
        if op == 0 or not chars:
            chars.insert(draw(st.integers(0, len(chars))), draw(_SOUP_TOK[kind]))
        elif op == 1:
            del chars[draw(st.integers(0, len(chars) - 1))]
        elif op == 2:
            chars[draw(st.integers(0, len(chars) - 1))] = draw(_SOUP_TOK[kind])
        elif len(chars) >= 2:
            i = draw(st.integers(0, len(chars) - 2))
            chars[i], chars[i + 1] = chars[i + 1], chars[i]
    return {'k': 'soup', 'kind': kind, 'spec': ''.join(chars)}


@st.composite
def parse_cases(draw):
    """TimeDate.parse / TimeSpan.parse agree with the interval classes; weekdays."""
    wd_style = draw(st.sampled_from(['none', 'str', 'list', 'bad']))
    if wd_style == 'none':
        wd = None
    elif wd_style == 'str':
        digits = draw(st.lists(st.integers(0, 7), max_size=8))
        wd = ''.join(str(d) + draw(st.sampled_from(['', '', ' ', '\t'])) for d in digits)
    elif wd_style == 'list':
        wd = draw(st.lists(st.integers(0, 7), max_size=8))
    else:
        wd = draw(st.sampled_from([[8], [-1], '8', '1a', [1, 9], 'x']))
    times = draw(st.one_of(st.none(), interval_cases_of('time')))
    dates = draw(st.one_of(st.none(), interval_cases_of('date')))
    span = draw(interval_cases_of('datetime'))
    return {'k': 'parse', 'wd_style': wd_style, 'weekdays': wd, 'times': times, 'dates': dates, 'span': span}


@st.composite
def interval_cases_of(draw, kind):
    ep = {'time': grid_time, 'date': any_date, 'datetime': any_datetime()}[kind]
    ranges = []
    for _ in range(draw(st.integers(0, 3))):
        r = [draw(ep), draw(ep)]
        if r not in ranges:
            ranges.append(r)
    return {'ranges': ranges, 'notation': r_interval(draw, kind, ranges)}


def strategy(tier):
    return st.one_of(interval_cases(), interval_cases(), interval_cases(), bad_cases(), parse_cases(),
                     glued_cases(), soup_cases())


def exhaustive(tier):
    def bad():
        for kind, lst in BAD.items():
            for idx in range(len(lst)):
                for wrap in ('plain', 'with_valid'):
                    yield {'k': 'bad', 'kind': kind, 'idx': idx, 'wrap': wrap}
    if tier != 'thorough':
        return ("every entry of the list of malformed specifications, alone and after a valid range", bad())

    def gen():
        yield from bad()
        for i in range(366):
            yield {'k': 'exh_date', 'start': i}
        for i in range(1440):
            yield {'k': 'exh_time', 'start': i}
    return ("every entry of the list of malformed specifications; all 366x366 date ranges, membership checked on all 366 days of a leap year; all "
            "1440x1440 minute-grid time ranges, membership checked at both endpoints and their "
            "+-1 us neighbours", gen())


# ---------------------------------------------------------------- model
CLS = {'time': ti.TimeInterval, 'date': ti.DateInterval, 'datetime': ti.DateTimeInterval}
FULL = {'time': 4, 'date': 2, 'datetime': 7}


def full(kind, ep):
    return list(ep) + [0] * (FULL[kind] - len(ep))


def t_us(t):
    h, m, s, us = t
    return ((h * 60 + m) * 60 + s) * 10 ** 6 + us


def us_t(x):
    x %= US_DAY
    s, us = divmod(x, 10 ** 6)
    m, s = divmod(s, 60)
    h, m = divmod(m, 60)
    return [h, m, s, us]


_YDAY = {}
_DAYS = []
for _m in range(1, 13):
    for _d in range(1, MDAYS[_m] + 1):
        _YDAY[(_m, _d)] = len(_DAYS)
        _DAYS.append([_m, _d])


def model_in(kind, ranges, x):
    if kind == 'time':
        v = t_us(x)
        for a, b in ranges:
            a, b = t_us(a), t_us(b)
            if (a <= v < b) if a < b else (v >= a or v < b):
                return True
        return False
    if kind == 'date':
        v = _YDAY[tuple(x)]
        for a, b in ranges:
            a, b = _YDAY[tuple(a)], _YDAY[tuple(b)]
            if (a <= v <= b) if a <= b else (v >= a or v <= b):
                return True
        return False
    v = tuple(x)
    return any(tuple(a) <= v < tuple(b) for a, b in ranges)


def to_obj(kind, x):
    if kind == 'time':
        return dt.time(*x)
    if kind == 'date':
        return ti.convert_date_seq(x)
    return dt.datetime(*x)


def build_spec(notation):
    if 'set' in notation:
        return set(notation['set'])
    spec = notation['spec']
    if isinstance(spec, list) and notation.get('tuple'):
        return tuple(tuple(r) if isinstance(r, list) else r for r in spec)
    return spec


def neighbours(kind, ep):
    if kind == 'time':
        v = t_us(ep)
        return [us_t(v - 1), us_t(v), us_t(v + 1)]
    if kind == 'date':
        i = _YDAY[tuple(ep)]
        return [_DAYS[(i - 1) % 366], _DAYS[i], _DAYS[(i + 1) % 366]]
    d = dt.datetime(*ep)
    out = []
    for delta in (-1, 0, 1):
        try:
            n = d + dt.timedelta(microseconds=delta)
        except OverflowError:
            continue
        out.append([n.year, n.month, n.day, n.hour, n.minute, n.second, n.microsecond])
    return out


def expected_list(kind, ranges):
    return sorted([full(kind, a), full(kind, b)] for a, b in ranges)


def check_interval(res, kind, ranges, notation, probes):
    expected = expected_list(kind, ranges)
    cls = CLS[kind]
    spec = build_spec(notation)
    try:
        obj = cls(spec)
    except Exception as err:
        res.fail('C13.valid_notation_rejected', f"{cls.__name__}({spec!r}): {err!r}")
        return None
    got = obj.as_list()
    if got != expected:
        res.fail('C13.normal_form', f"{cls.__name__}({spec!r}).as_list() = {got}, expected {expected}")
        return None
    # the exported form belongs to the caller: editing it in place (to derive another interval) must
    # not change what is exported afterwards, by this or by any other interval
    def scribble(x):
        for i, item in enumerate(x):
            if isinstance(item, list):
                scribble(item)
            else:
                x[i] = 99
    scribble(got)
    for how, again in (('same object', lambda: obj.as_list()), ('equal interval', lambda: cls(spec).as_list())):
        try:
            later = again()
        except Exception as err:
            res.fail('C13.export_not_independent', f"{spec!r}: {how} after editing an exported form: {err!r}")
            return None
        if later != expected:
            res.fail('C13.export_not_independent', f"{cls.__name__}({spec!r}): after the caller edited a form "
                     f"returned by as_list(), as_list() of the {how} gives {later}, expected {expected}")
            return None
    # round trips
    for how, again in (('as_list', lambda: cls(obj.as_list())), ('as_string', lambda: cls(obj.as_string()))):
        try:
            back = again().as_list()
        except Exception as err:
            res.fail('C13.roundtrip_' + how, f"{spec!r}: feeding {how}() back raised {err!r}")
            continue
        if back != expected:
            res.fail('C13.roundtrip_' + how, f"{spec!r}: {how}() -> {back}, expected {expected}")
    # membership
    moments = list(probes)
    for a, b in ranges:
        moments += neighbours(kind, full(kind, a)) + neighbours(kind, full(kind, b))
    for mom in moments:
        want = model_in(kind, [[full(kind, a), full(kind, b)] for a, b in ranges], mom)
        have = to_obj(kind, mom) in obj
        if want != have:
            res.fail('C13.membership', f"{mom} in {cls.__name__}({spec!r}) is {have}, expected {want}")
            break
    return obj


def is_special(kind, ranges):
    if len(ranges) >= 2:
        return True
    for a, b in ranges:
        fa, fb = full(kind, a), full(kind, b)
        if fa >= fb:
            return True
    return False


def execute(case):
    res = Result()
    k = case['k']
    if k == 'interval':
        kind = case['kind']
        fams = set()
        for notation in case['notations']:
            check_interval(res, kind, case['ranges'], notation, case['probes'])
            fams.add(tuple(notation['fams']))
        res.classes = ['interval/' + kind] + sorted({f for n in case['notations'] for f in n['fams']})
        res.nontrivial = is_special(kind, case['ranges']) and len(fams) >= 2
        if any(full(kind, a) >= full(kind, b) for a, b in case['ranges']):
            res.classes.append('wrapping-or-equal range')
        res.outcome = {'as_list': expected_list(kind, case['ranges'])}
    elif k == 'bad':
        kind = case['kind']
        spec, why = BAD[kind][case['idx']]
        cls = CLS[kind]
        if case['wrap'] == 'with_valid' and isinstance(spec, str):
            valid = {'time': '1:00-2:00', 'date': 'Jan 1 - Jan 2',
                     'datetime': '2020-01-01 1:00 / 2020-01-02 1:00'}[kind]
            spec = f"{valid}; {spec}"
        try:
            obj = cls(spec)
        except (ValueError, TypeError):
            pass
        except Exception as err:
            res.fail('C13.malformed_wrong_exception', f"{cls.__name__}({spec!r}) raised {err!r}")
        else:
            res.fail('C13.malformed_accepted', f"{cls.__name__}({spec!r}) ({why}) -> {obj.as_list()}")
        res.nontrivial = True
        res.classes = ['bad/' + kind]
        res.outcome = {'spec': spec, 'why': why}
    elif k == 'glued':
        cls = CLS[case['kind']]
        spec = case['spec']
        try:
            obj = cls(spec)
        except (ValueError, TypeError):
            pass
        except Exception as err:
            res.fail('C13.malformed_wrong_exception', f"{cls.__name__}({spec!r}) raised {err!r}")
        else:
            res.fail('C13.malformed_accepted', f"{cls.__name__}({spec!r}) (glued tokens) -> {obj.as_list()}")
        res.nontrivial = True
        res.classes = ['bad/glued tokens']
        res.outcome = {'spec': spec}
    elif k == 'soup':
        cls = CLS[case['kind']]
        spec = case['spec']
        res.classes = ['soup/refused']
        try:
            obj = cls(spec)
        except (ValueError, TypeError):
            obj = None
        except Exception as err:
            res.fail('C13.malformed_wrong_exception', f"{cls.__name__}({spec!r}) raised {err!r}")
            obj = None
        if obj is not None:
            res.classes = ['soup/accepted']
            lst = obj.as_list()
            limits = {'time': [(0, 23), (0, 59), (0, 59), (0, 999999)], 'date': [(1, 12), (1, 31)],
                      'datetime': [(1, 9999), (1, 12), (1, 31), (0, 23), (0, 59), (0, 59), (0, 999999)]}[case['kind']]
            shape_ok = isinstance(lst, list) and all(
                isinstance(r, list) and len(r) == 2 and all(
                    isinstance(ep, list) and len(ep) == len(limits)
                    and all(type(v) is int and lo <= v <= hi for v, (lo, hi) in zip(ep, limits)) for ep in r)
                for r in lst)
            if not shape_ok:
                res.fail('C13.normal_form', f"{cls.__name__}({spec!r}).as_list() = {lst!r}")
            elif lst != sorted(lst):
                res.fail('C13.normal_form', f"{cls.__name__}({spec!r}).as_list() is not sorted: {lst!r}")
            else:
                for how, arg in (('as_list', lst), ('as_string', obj.as_string())):
                    try:
                        again = cls(arg).as_list()
                    except Exception as err:
                        res.fail('C13.round_trip', f"{cls.__name__}({spec!r}).{how}() = {arg!r} is refused: {err!r}")
                    else:
                        if again != lst:
                            res.fail('C13.round_trip', f"{cls.__name__}({spec!r}): {how}() = {arg!r} gives {again}, "
                                     f"not {lst}")
        res.nontrivial = obj is not None and bool(obj.as_list())
        res.outcome = {'spec': spec, 'accepted': obj is not None}
    elif k == 'parse':
        times, dates, span = case['times'], case['dates'], case['span']
        wd = case['weekdays']
        args = (None if times is None else build_spec(times['notation']),
                None if dates is None else build_spec(dates['notation']), wd)
        try:
            got = edzed.TimeDate.parse(*args)
        except (ValueError, TypeError) as err:
            if case['wd_style'] != 'bad':
                res.fail('C13.parse_rejected', f"TimeDate.parse{args!r}: {err!r}")
        except Exception as err:
            res.fail('C13.parse_wrong_exception', f"TimeDate.parse{args!r}: {err!r}")
        else:
            if case['wd_style'] == 'bad':
                res.fail('C13.bad_weekdays_accepted', f"TimeDate.parse{args!r} -> {got}")
            else:
                if wd is None:
                    ewd = None
                else:
                    nums = [int(c) for c in wd if c not in ' \t'] if isinstance(wd, str) else wd
                    ewd = sorted({7 if n == 0 else n for n in nums})
                exp = {'times': None if times is None else expected_list('time', times['ranges']),
                       'dates': None if dates is None else expected_list('date', dates['ranges']),
                       'weekdays': ewd}
                if got != exp:
                    res.fail('C13.timedate_parse', f"TimeDate.parse{args!r} = {got}, expected {exp}")
        sarg = build_spec(span['notation'])
        try:
            got = edzed.TimeSpan.parse(sarg)
        except Exception as err:
            res.fail('C13.parse_rejected', f"TimeSpan.parse({sarg!r}): {err!r}")
        else:
            exp = expected_list('datetime', span['ranges'])
            if got != exp:
                res.fail('C13.timespan_parse', f"TimeSpan.parse({sarg!r}) = {got}, expected {exp}")
        res.nontrivial = wd is not None and (times is not None or dates is not None)
        res.classes = ['parse', 'weekdays/' + case['wd_style']]
    elif k == 'exh_date':
        a = _DAYS[case['start']]
        objs = [ti.convert_date_seq(d) for d in _DAYS]
        n = 0
        for b in _DAYS:
            iv = ti.DateInterval([[a, b]])
            if iv.as_list() != [[a, b]]:
                res.fail('C13.normal_form', f"DateInterval([[{a},{b}]]).as_list() = {iv.as_list()}")
                break
            ia, ib = _YDAY[tuple(a)], _YDAY[tuple(b)]
            for i, o in enumerate(objs):
                want = (ia <= i <= ib) if ia <= ib else (i >= ia or i <= ib)
                if (o in iv) != want:
                    res.fail('C13.membership', f"{_DAYS[i]} in DateInterval([[{a},{b}]]) is {o in iv}")
                    break
            n += 1
        res.evals = n
        res.nt_count = n
        res.classes = ['exhaustive/date']
    elif k == 'exh_time':
        i = case['start']
        a = [i // 60, i % 60, 0, 0]
        n = 0
        for j in range(1440):
            b = [j // 60, j % 60, 0, 0]
            iv = ti.TimeInterval([[a[:2], b[:2]]])
            ranges = [[a, b]]
            for ep in (a, b):
                for mom in neighbours('time', ep):
                    want = model_in('time', ranges, mom)
                    if (dt.time(*mom) in iv) != want:
                        res.fail('C13.membership', f"{mom} in TimeInterval([[{a},{b}]]) is {not want}")
                        break
            n += 1
        res.evals = n
        res.nt_count = n
        res.classes = ['exhaustive/time']
    else:
        raise AssertionError(k)
    return res
