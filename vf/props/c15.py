"""C15 - the finalized circuit's connection data is complete, consistent and frozen.

Generator: up to 8 blocks, random connect() specifications mixing every reference style,
groups of size 0-3, repeated references, '_not_' shortcuts to S- and C-blocks, Event
destinations and filter control blocks by name and by object; explicit finalize() or the
implicit one at start; one class of invalid reference per negative case.
Oracle: own resolver (name -> expected object) + biconditionals over all block pairs.
"""
import warnings

from hypothesis import strategies as st

import edzed

from .. import harness
from ..runner import Result

ID = 'C15'
LEVEL = 'exploration'
BUDGET = {'quick': 2500, 'thorough': 12000}
RULE = ("Case = 1-3 Inputs + 1-6 CBlocks (generic probe, FuncBlock, And/Or) with positional inputs, named "
        "singles and named groups of size 0-3 (given as list, tuple or one-shot iterator), every reference drawn from {object, name, '_not_NAME' shortcut "
        "to S- or C-block, Const(v), bare constant} with repeats, 0-3 Events (destination by name/object) and "
        "filters IfOutput / NotIfInitialized / DataEdit.add_output (also two add_output steps of one chain naming different blocks under one key) with control block by name/object, "
        "finalisation by explicit Circuit.finalize() or implicitly at start; or a negative case with exactly "
        "one invalid element (unknown name, foreign-circuit block, CBlock as event destination, wrong input "
        "shape for Not/Compare/Override, list as positional input, duplicate name, connect twice, '_not__x', "
        "UNDEF constant, unknown event destination / control block). Non-trivial = positive case with >=1 "
        "shortcut used by >=2 references or >=1 group with a repeated reference, and >=1 event or filter "
        "given by name; negatives counted separately; distinct by descriptor.")
ASSUMPTIONS = [
    "'after finalisation' is observed right after Circuit.finalize() when it is called explicitly, "
    "otherwise after wait_init()",
    "a negative case is satisfied by an exception at construction/connect time, in finalize(), or by a "
    "failing start; it is violated only if the circuit runs",
]

UNDEF = edzed.UNDEF
CONSTS = [0, 1, None, 'txt', (1, 2), 2.5]
NEGATIVES = ['unknown_input', 'foreign_block', 'cblock_event_dest_obj', 'cblock_event_dest_name',
             'not_two_inputs', 'not_no_input', 'compare_named', 'override_missing', 'override_group',
             'positional_list', 'duplicate_name', 'connect_twice', 'not__x', 'undef_const', 'undef_bare',
             'unknown_event_dest', 'unknown_control', 'unknown_add_output',
             'foreign_same_name', 'unknown_prefix_name', 'double_shortcut',
             # a reference of the wrong kind following a legal reference to the same name
             'cblock_dest_after_anyref', 'cblock_nii_after_anyref', 'cblock_dest_after_input_ref',
             # wrongly shaped: an (empty) group where a single input is expected and vice versa
             'override_empty_group', 'override_empty_group_both']


class Noop(edzed.CBlock):
    def calc_output(self):
        return None


def _anyfunc(*args, **kwargs):
    return None


# ---------------------------------------------------------------- generator
@st.composite
def cases(draw):
    ns = draw(st.integers(1, 3))
    nc = draw(st.integers(1, 6))
    names = [f's{i}' for i in range(ns)] + [f'c{j}' for j in range(nc)]
    tricky = draw(st.integers(0, 2)) == 0
    if tricky:
        # a legal block name that itself contains '_not_' (its shortcut is '_not_z_not_s0')
        names.insert(ns, 'z_not_s0')
    if draw(st.integers(0, 3)) == 0:
        # a legal block name that looks like the automatic name of a constant used in the same circuit
        names.insert(ns, '<Const 1>')

    def ref(pool=None):
        r = draw(st.integers(0, 9))
        n = draw(st.sampled_from(pool or names))
        if r <= 2:
            return ['obj', n]
        if r <= 5:
            return ['name', n]
        if r <= 7:
            return ['not', n]
        c = draw(st.integers(0, len(CONSTS) - 1))
        wrap = isinstance(CONSTS[c], (str, tuple)) or draw(st.booleans())
        return ['const', c, wrap]
    cblocks = []
    for j in range(nc):
        kind = draw(st.sampled_from(['noop', 'noop', 'func', 'and', 'not']))
        # blocks computing real values are fed by sources only: the wiring may be cyclic, and only
        # the constant-output probes are stable in a loop
        srcnames = [n for n in names if n[0] in 'sz<']
        pos = [ref(srcnames if kind == 'and' else None) for _ in range(draw(st.integers(0, 3)))]
        named = {}
        if kind == 'not':
            # an explicit inverter, mostly fed through a shortcut (a double negation)
            pos = [['not', draw(st.sampled_from(srcnames))] if draw(st.integers(0, 3)) else ref(srcnames)]
        elif kind != 'and':
            for nm in draw(st.lists(st.sampled_from(['a', 'b', 'g', 'h']), unique=True, max_size=3)):
                if nm in 'ab':
                    named[nm] = ref()
                else:
                    grp = [ref() for _ in range(draw(st.integers(0, 3)))]
                    if grp and draw(st.booleans()):
                        grp.append(list(grp[0]))        # repeated reference
                    named[nm] = grp
        if not pos and not named:
            pos = [ref(srcnames if kind == 'and' else None)]
        # how a group is handed over: list, tuple, or a one-shot iterator (deprecated, but accepted)
        cblocks.append({'kind': kind, 'pos': pos, 'named': named,
                        'group_as': draw(st.sampled_from(['list', 'list', 'tuple', 'iter', 'gen']))})
    events = [{'dest': draw(st.integers(0, ns - 1)), 'byname': draw(st.booleans())}
              for _ in range(draw(st.integers(0, 3)))]
    filters = [{'kind': draw(st.sampled_from(['ifoutput', 'notifinit', 'add_output', 'add_output2'])),
                'ctrl': draw(st.sampled_from(names[:ns] if True else names)),
                'byname': draw(st.booleans())} for _ in range(draw(st.integers(0, 3)))]
    for f in filters:
        if f['kind'] == 'add_output2':
            # one DataEdit chain referring to two blocks under the same key (the first value is moved away)
            f['ctrl2'] = draw(st.sampled_from(names))
            f['mid'] = draw(st.sampled_from(['rename', 'copy']))
        if f['kind'] != 'notifinit' and draw(st.booleans()):
            f['ctrl'] = draw(st.sampled_from(names))       # IfOutput/add_output accept any block
            if draw(st.integers(0, 2)) == 0:
                f['ctrl'] = '_not_' + f['ctrl']
                f['byname'] = True
    case = {'ns': ns, 'tricky': tricky, 'cblocks': cblocks, 'events': events, 'filters': filters,
            'explicit': draw(st.booleans()),
            'order': list(draw(st.permutations(names))), 'negative': None}
    if draw(st.integers(0, 3)) == 0:
        case['negative'] = draw(st.sampled_from(NEGATIVES))
    # events and filters may also be created between an explicit finalize() and the start
    case['late'] = case['explicit'] and draw(st.booleans())
    if case['late']:
        for f in filters:
            if f['ctrl'].startswith('_not_'):
                f['ctrl'] = f['ctrl'][5:]       # a new inverter cannot be added to a finalized circuit
    return case


def strategy(tier):
    return cases()


def exhaustive(tier):
    """every class of invalid reference on a fixed small circuit, with and without an explicit
    finalize(), references created before or after it"""
    def gen():
        for neg in NEGATIVES:
            for explicit, late in ((False, False), (True, False), (True, True)):
                yield {'ns': 1, 'tricky': False,
                       'cblocks': [{'kind': 'noop', 'pos': [['name', 's0']], 'named': {}}],
                       'events': [{'dest': 0, 'byname': True}],
                       'filters': [{'kind': 'ifoutput', 'ctrl': 's0', 'byname': True}],
                       'explicit': explicit, 'late': late, 'order': ['s0', 'c0'], 'negative': neg}
    return (f"each of the {len(NEGATIVES)} classes of invalid references on a two-block circuit x "
            "{implicit finalisation, explicit finalize(), references created after finalize()}", gen())


# ---------------------------------------------------------------- executor
def execute(case):
    res = Result()
    obs = {}
    neg = case['negative']

    async def scenario(loop):
        raised = None
        foreign = None
        if neg in ('foreign_block', 'foreign_same_name'):
            harness.reset()
            foreign = edzed.Input('alien' if neg == 'foreign_block' else 's0', initdef=0)
        circuit = harness.reset()
        ns = case['ns']
        objs = {}

        def mat(r):
            if r[0] == 'obj':
                return objs.get(r[1], r[1])         # not created yet -> by name
            if r[0] == 'name':
                return r[1]
            if r[0] == 'not':
                return '_not_' + r[1]
            v = CONSTS[r[1]]
            return edzed.Const(v) if r[2] else v
        events = []
        filters = []

        def make_refs():
            for e in case['events']:
                nm = f"s{e['dest']}"
                events.append((edzed.Event(nm if e['byname'] else objs[nm], 'put'), nm))
            for f in case['filters']:
                ctrl = f['ctrl'] if f['byname'] or f['ctrl'] not in objs else objs[f['ctrl']]
                if f['kind'] == 'ifoutput':
                    flt = edzed.IfOutput(ctrl)
                elif f['kind'] == 'notifinit':
                    flt = edzed.NotIfInitialized(ctrl)
                elif f['kind'] == 'add_output2':
                    ctrl2 = f['ctrl2'] if not f['byname'] or f['ctrl2'] not in objs else objs[f['ctrl2']]
                    flt = edzed.DataEdit.add_output('k', ctrl)
                    flt = flt.rename('k', 'k1') if f['mid'] == 'rename' else flt.copy('k', 'k1')
                    flt = flt.add_output('k', ctrl2)
                else:
                    flt = edzed.DataEdit.add_output('k', ctrl)
                filters.append((flt, f))
            if neg == 'cblock_event_dest_obj':
                edzed.Event(objs['c0'], 'put')
            elif neg == 'cblock_event_dest_name':
                edzed.Event('c0', 'put')
            elif neg == 'unknown_event_dest':
                edzed.Event('no_such_block', 'put')
            elif neg == 'unknown_control':
                edzed.IfOutput('no_such_block')
            elif neg == 'unknown_add_output':
                edzed.DataEdit.add_output('k', 'no_such_block')
            elif neg == 'cblock_dest_after_anyref':
                edzed.Event('s0', 'put', efilter=edzed.IfOutput('c0'))      # any block may be a control block
                edzed.Event('c0', 'put')                                    # but not a destination
            elif neg == 'cblock_nii_after_anyref':
                edzed.DataEdit.add_output('k', 'c0')
                edzed.NotIfInitialized('c0')
            elif neg == 'cblock_dest_after_input_ref':
                if not case.get('late'):
                    Noop('neg').connect('c0')
                edzed.IfOutput('c0')
                edzed.Event('c0', 'put')

        try:
            for name in case['order']:
                if name.startswith('s'):
                    objs[name] = edzed.Input(name, initdef=int(name[1:]) + 10)
                    continue
                if name.startswith(('z', '<')):
                    objs[name] = edzed.Input(name, initdef=77)
                    continue
                d = case['cblocks'][int(name[1:])]
                if d['kind'] == 'noop':
                    blk = Noop(name)
                elif d['kind'] == 'func':
                    blk = edzed.FuncBlock(name, func=_anyfunc)
                elif d['kind'] == 'not':
                    blk = edzed.Not(name)
                else:
                    blk = edzed.And(name)
                args = [mat(r) for r in d['pos']]
                kwargs = {k: ([mat(x) for x in v] if k in 'gh' else mat(v)) for k, v in d['named'].items()}
                how = d.get('group_as', 'list')
                for k in kwargs:
                    if k in 'gh' and how != 'list':
                        members = kwargs[k]
                        kwargs[k] = (tuple(members) if how == 'tuple' else iter(members) if how == 'iter'
                                     else (m for m in members))
                with warnings.catch_warnings():
                    warnings.simplefilter('ignore', DeprecationWarning)
                    blk.connect(*args, **kwargs)
                objs[name] = blk
            if not case.get('late'):
                make_refs()
            # ---- the one invalid element of a negative case
            if neg == 'unknown_input':
                Noop('neg').connect('no_such_block')
            elif neg in ('foreign_block', 'foreign_same_name'):
                Noop('neg').connect(foreign)
            elif neg == 'unknown_prefix_name':
                Noop('neg').connect('s')            # a prefix of existing names is not a name
            elif neg == 'double_shortcut':
                Noop('neg').connect('_not_s0', '_not__not_s0')  # NAME must not begin with an underscore
            elif neg == 'not_two_inputs':
                edzed.Not('neg').connect('s0', 's0')
            elif neg == 'not_no_input':
                edzed.Not('neg')
            elif neg == 'compare_named':
                edzed.Compare('neg', low=0, high=1).connect(x='s0')
            elif neg == 'override_missing':
                edzed.Override('neg').connect(input='s0')
            elif neg == 'override_group':
                edzed.Override('neg').connect(input=['s0', 's0'], override='s0')
            elif neg == 'override_empty_group':
                edzed.Override('neg').connect(input=[], override='s0')
            elif neg == 'override_empty_group_both':
                edzed.Override('neg').connect(input=(), override=())
            elif neg == 'positional_list':
                Noop('neg').connect(['s0'])
            elif neg == 'duplicate_name':
                edzed.Input('s0', initdef=1)
            elif neg == 'connect_twice':
                objs['c0'].connect('s0')
            elif neg == 'not__x':
                Noop('neg').connect('_not__x')
            elif neg == 'undef_const':
                Noop('neg').connect(edzed.Const(UNDEF))
            elif neg == 'undef_bare':
                Noop('neg').connect(UNDEF)
        except Exception as err:
            raised = err
        obs['raised'] = None if raised is None else type(raised).__name__
        if raised is not None:
            return
        if case['explicit']:
            try:
                circuit.finalize()
            except Exception as err:
                # the application may catch this and carry on: a second attempt (the start below)
                # must not accept what the first one refused
                obs['finalize_raised'] = type(err).__name__
            else:
                if case.get('late'):
                    try:
                        make_refs()
                    except Exception as err:
                        obs['raised'] = type(err).__name__
                        return
                else:
                    obs['after_finalize'] = inspect_circuit(circuit, case, objs, events, filters)
                obs['frozen'] = frozen(circuit, objs)
        sim = harness.Running()
        await sim.__aenter__()
        obs['started'] = sim.init_error is None
        obs['start_error'] = None if circuit.error is None else type(circuit.error).__name__
        if sim.init_error is None:
            if not case['explicit'] or 'finalize_raised' in obs or case.get('late'):
                obs['after_finalize'] = inspect_circuit(circuit, case, objs, events, filters)
                obs['frozen'] = frozen(circuit, objs)
            obs['functional'] = functional(circuit, objs, filters)
        await sim.stop()

    harness.run_case(scenario)

    if neg is not None:
        if obs['raised'] is None and obs.get('started'):
            if 'finalize_raised' in obs:
                res.fail('C15.invalid_accepted_second_attempt', f"negative case {neg!r}: finalize() raised "
                         f"{obs['finalize_raised']}, but the start right afterwards accepted the same circuit")
            else:
                res.fail('C15.invalid_accepted', f"negative case {neg!r}: no error at construction, in finalize() "
                         "or at start; the circuit runs")
        res.classes = ['negative: ' + neg,
                       'rejected at construction/finalize' if obs['raised'] or 'finalize_raised' in obs
                       else 'start failed']
        res.nontrivial = False
        res.outcome = {'raised': obs['raised'], 'start_error': obs.get('start_error')}
        return res
    if obs['raised'] is not None or 'finalize_raised' in obs:
        res.fail('C15.valid_refused', f"valid specification refused: {obs['raised'] or obs['finalize_raised']}")
        return res
    if not obs.get('started'):
        res.fail('C15.valid_start_failed', f"start failed: {obs.get('start_error')}")
        return res
    for clause, msg in obs['after_finalize'] + obs['frozen'] + obs['functional']:
        res.fail(clause, msg)
    # classification
    allrefs = []
    for d in case['cblocks']:
        allrefs.extend(d['pos'])
        for k, v in d['named'].items():
            allrefs.extend(v if k in 'gh' else [v])
    nots = [r[1] for r in allrefs if r[0] == 'not']
    shared = len(nots) != len(set(nots))
    repeated = any(len(v) != len({tuple(x) for x in v}) for d in case['cblocks']
                   for k, v in d['named'].items() if k in 'gh')
    byname = any(e['byname'] for e in case['events']) or any(f['byname'] for f in case['filters'])
    res.nontrivial = (shared or repeated) and byname
    res.classes = ['explicit finalize()' if case['explicit'] else 'implicit at start']
    if case.get('late'):
        res.classes.append('events and filters created after finalize()')
    if shared:
        res.classes.append('shared inverter')
    if repeated:
        res.classes.append('group with repeated reference')
    if byname:
        res.classes.append('event/filter by name')
    res.outcome = {'inverters': len(set(nots))}
    return res


def inspect_circuit(circuit, case, objs, events, filters):
    """structural checks after finalisation -> [(clause, message)]"""
    errs = []
    ns = case['ns']
    allb = list(circuit.getblocks())
    byname = {b.name: b for b in allb}

    def target(r):
        if r[0] in ('obj', 'name'):
            return byname.get(r[1])
        if r[0] == 'not':
            return byname.get('_not_' + r[1])
        return None
    for j, d in enumerate(case['cblocks']):
        b = objs[f'c{j}']
        feeds = set()
        items = ([('_', d['pos'], True)] if d['pos'] else []) + [
            (k, v, k in 'gh') for k, v in d['named'].items()]
        if set(b.inputs) != {k for k, _, _ in items}:
            errs.append(('C15.input_names', f"c{j}: inputs {sorted(b.inputs)}, expected {sorted(k for k, _, _ in items)}"))
            continue
        for k, v, group in items:
            got = b.inputs[k]
            if group:
                if not isinstance(got, tuple) or len(got) != len(v):
                    errs.append(('C15.input_shape', f"c{j}.{k}: {got!r} for {len(v)} references"))
                    continue
                pairs = list(zip(v, got))
            else:
                if isinstance(got, tuple):
                    errs.append(('C15.input_shape', f"c{j}.{k}: group {got!r} for a single reference"))
                    continue
                pairs = [(v, got)]
            for r, g in pairs:
                if r[0] == 'const':
                    if not isinstance(g, edzed.Const) or g.output != CONSTS[r[1]] \
                            or type(g.output) is not type(CONSTS[r[1]]):
                        errs.append(('C15.const', f"c{j}.{k}: {r} resolved to {g!r}"))
                else:
                    t = target(r)
                    if t is None or g is not t:
                        errs.append(('C15.resolve', f"c{j}.{k}: {r} resolved to {g}, expected {t}"))
                    else:
                        feeds.add(t)
        if b.iconnections != feeds:
            errs.append(('C15.iconnections', f"c{j}: iconnections {sorted(x.name for x in b.iconnections)}, "
                         f"inputs are fed by {sorted(x.name for x in feeds)}"))
        try:
            sig = b.input_signature()
            conf = b.get_conf()['inputs']
            if set(sig) != set(conf):
                errs.append(('C15.conf_vs_signature', f"c{j}: {sig} vs {conf}"))
            for k in sig:
                inp = b.inputs[k]
                if sig[k] is None:
                    ok = isinstance(conf[k], str) and conf[k] == inp.name
                else:
                    ok = isinstance(conf[k], tuple) and len(conf[k]) == sig[k] \
                        and list(conf[k]) == [x.name for x in inp]
                if not ok:
                    errs.append(('C15.conf_vs_signature', f"c{j}.{k}: signature {sig[k]!r}, conf {conf[k]!r}"))
        except Exception as err:
            errs.append(('C15.conf_vs_signature', f"c{j}: {err!r}"))
    # inverters: exactly once, a Not fed by the right block
    wanted = set()
    for d in case['cblocks']:
        for r in d['pos'] + [x for k, v in d['named'].items() for x in (v if k in 'gh' else [v])]:
            if r[0] == 'not':
                wanted.add('_not_' + r[1])
    for f in case['filters']:
        if f['ctrl'].startswith('_not_'):
            wanted.add(f['ctrl'])
    have = sorted(b.name for b in allb if b.name.startswith('_not_'))
    if have != sorted(wanted):
        errs.append(('C15.inverters', f"inverter blocks {have}, expected {sorted(wanted)}"))
    for b in allb:
        if b.name.startswith('_not_'):
            src = byname.get(b.name[5:])
            if not isinstance(b, edzed.Not) or b.inputs.get('_') != (src,) or b.iconnections != {src}:
                errs.append(('C15.inverter_wiring', f"{b.name}: inputs {b.inputs}"))
    # biconditionals
    for a in allb:
        for b in allb:
            in_o = b in a.oconnections
            if isinstance(b, edzed.CBlock):
                in_i = a in b.iconnections
                flat = []
                for v in b.inputs.values():
                    flat.extend(v if isinstance(v, tuple) else [v])
                feeds = any(x is a for x in flat)
                if not (in_o == in_i == feeds):
                    errs.append(('C15.biconditional', f"{a.name}->{b.name}: in oconnections {in_o}, "
                                 f"in iconnections {in_i}, feeds an input {feeds}"))
            elif in_o:
                errs.append(('C15.biconditional', f"{a.name}.oconnections contains the sequential block {b.name}"))
    # events and filters by name
    for ev, nm in events:
        try:
            if ev.dest is not byname[nm]:
                errs.append(('C15.event_dest', f"Event.dest is {ev.dest}, expected {nm}"))
        except Exception as err:
            errs.append(('C15.event_dest', f"Event.dest for {nm!r}: {err!r}"))
    for flt, f in filters:
        ctrl = byname.get(f['ctrl'])
        try:
            out = flt({'x': 1})
            passed = verdict(out) == 'pass' or (verdict(out) == 'data' and out == {'x': 1})
            if f['kind'] == 'add_output2':
                ok = (isinstance(out, dict) and out.get('k1', 'missing') is ctrl.output
                      and out.get('k', 'missing') is byname[f['ctrl2']].output and out.get('x') == 1)
            elif f['kind'] == 'add_output':
                ok = isinstance(out, dict) and out.get('k', 'missing') is ctrl.output and out.get('x') == 1
            elif f['kind'] == 'ifoutput':
                ok = passed if ctrl.output else verdict(out) == 'reject'
            else:
                ok = verdict(out) == 'reject' if ctrl.is_initialized() else passed
            if not ok:
                errs.append(('C15.filter_control', f"{f}: filter returned {out!r}, control output {ctrl.output!r}"))
        except Exception as err:
            errs.append(('C15.filter_control', f"{f}: {err!r}"))
    return errs


def verdict(ret):
    """what Event.send() makes of a filter's result"""
    if isinstance(ret, dict):
        return 'data'
    return 'pass' if ret else 'reject'


def frozen(circuit, objs):
    errs = []
    storage_before = circuit.persistent_dict
    inputs_before = {n: dict(b.inputs) for n, b in objs.items() if hasattr(b, 'inputs')}
    attempts = {
        'new block': lambda: edzed.Input('late', initdef=0),
        'connect': lambda: Noop.connect(objs['c0'], 's0'),
        'set_persistent_data': lambda: circuit.set_persistent_data({}),
        'addblock': lambda: circuit.addblock(objs['c0']),
    }
    for what, func in attempts.items():
        try:
            func()
            errs.append(('C15.not_frozen', f"{what} accepted after finalisation"))
        except edzed.EdzedInvalidState:
            pass
        except Exception as err:
            errs.append(('C15.not_frozen', f"{what}: {err!r} instead of EdzedInvalidState"))
    if 'late' in {b.name for b in circuit.getblocks()}:
        errs.append(('C15.not_frozen', "a block was added after finalisation"))
    # a refused call must not have had its effect all the same
    if circuit.persistent_dict is not storage_before:
        errs.append(('C15.not_frozen', "the refused set_persistent_data() has replaced the storage"))
    for n, b in objs.items():
        if hasattr(b, 'inputs') and dict(b.inputs) != inputs_before[n]:
            errs.append(('C15.not_frozen', f"the refused connect() has changed the inputs of {n}"))
    return errs


def functional(circuit, objs, filters):
    """while running: the filters follow the block of that name (distinct outputs per block)"""
    errs = []
    byname = {b.name: b for b in circuit.getblocks()}
    for flt, f in filters:
        missing = [n for n in (f['ctrl'], f.get('ctrl2')) if n is not None and n not in byname]
        if missing:
            errs.append(('C15.filter_control', f"running: {f}: no block named {missing} in the circuit"))
            continue
        ctrl = byname[f['ctrl']]
        out = flt({'x': 1})
        if f['kind'] == 'add_output2':
            if not (isinstance(out, dict) and out['k1'] is ctrl.output and out['k'] is byname[f['ctrl2']].output):
                errs.append(('C15.filter_control', f"running: {f}: {out!r} vs outputs {ctrl.output!r}, "
                             f"{byname[f['ctrl2']].output!r}"))
        elif f['kind'] == 'add_output':
            if not (isinstance(out, dict) and out['k'] is ctrl.output):
                errs.append(('C15.filter_control', f"running: {f}: {out!r} vs output {ctrl.output!r}"))
        elif f['kind'] == 'ifoutput':
            if (verdict(out) != 'reject') != bool(ctrl.output):
                errs.append(('C15.filter_control', f"running: {f}: {out!r} vs output {ctrl.output!r}"))
        elif verdict(out) != 'reject':
            errs.append(('C15.filter_control', f"running: {f}: NotIfInitialized passed {out!r}"))
    return errs
