"""C14 - external events enter only a running circuit and are always marked as external.

One scenario walks through all lifecycle phases (not started, task created, initialising,
running, aborting, cleaning up, finished); in every phase an ExtEvent with a generated data
shape is sent.  Oracle: delivered <=> run_forever() has started and Circuit.error is None;
delivered data / return value / refusal class are predicted from the data shape.
"""
import asyncio

from hypothesis import strategies as st

import edzed

from .. import harness
from ..runner import Result

ID = 'C14'
LEVEL = 'exploration'
BUDGET = {'quick': 2500, 'thorough': 10000}
RULE = ("Case = destination kind (recorder probe, Input, Counter, two-state FSM, a block whose specialized handler returns unusual objects such as UNDEF; by name or by object) x "
        "ExtEvent default source (absent, plain, prefixed, generated text) x termination kind (shutdown(), "
        "abort(exc), failing event handler, Event.abort() control event) x one send attempt per lifecycle phase "
        "(not started, task created, initialising with an init_async in progress, running x3, aborting, "
        "cleaning up with a stop_async in progress, finished; optionally also after a start that edzed refused "
        "because of an eager task factory), each with a generated data shape: value positional / "
        "keyword / absent, source absent / text (incl. '', '_ext_', '_ext_x', 'x_ext_', unicode) / non-string, "
        "extra items (also items named like parameters used inside the library: etype, data, dest, event, name); plus a user block with a generated name acting as internal event source. "
        "Non-trivial = every case (all seven phases are exercised); distinct by descriptor.")
ASSUMPTIONS = [
    "'running' is Circuit.is_ready(): the simulation task has started and no error/stop has been "
    "recorded; an event sent while asynchronous initialisation is in progress is therefore delivered "
    "(the destination initialises itself first), as documented for SBlock.event",
    "automatic block names (name=None) are outside the property's domain (it speaks about names given by the user)",
]

UNDEF = edzed.UNDEF
SOURCES = ['', '_ext_', '_ext_x', 'x', 'x_ext_', '_extx', ' _ext_', 'ext_', '_EXT_a', 'žluť', '_']
NONSTR = [7, None, ['a'], b'_ext_']
RESERVED = ('rec', 'slowinit', 'slowstop', 'faulty', 'ctl_src', 'dst')


def prefixed(s):
    return s if s.startswith('_ext_') else '_ext_' + s


class SlowInit(edzed.AddonAsync, edzed.SBlock):
    async def init_async(self):
        await asyncio.sleep(3)
        self.set_output(1)

    def _event_put(self, **data):
        return None


class SlowStop(edzed.AddonAsync, edzed.SBlock):
    def init_regular(self):
        self.set_output(0)

    async def stop_async(self):
        await asyncio.sleep(2)


class Faulty(edzed.SBlock):
    def init_regular(self):
        self.set_output(0)

    def _event_boom(self, **data):
        raise RuntimeError('boom')


class Toggle(edzed.FSM):
    STATES = ['a', 'b']
    EVENTS = [('go', 'a', 'b'), ('go', 'b', 'a')]


class Latch(edzed.SBlock):
    """a destination with a specialized handler whose results are unusual objects (UNDEF among them)"""
    RESULTS = [edzed.UNDEF, None, 0, False, '', NotImplemented, 'text']

    def init_regular(self):
        self.set_output(0)

    def _event_put(self, **_data):
        n = self.output
        self.set_output(n + 1)
        return self.RESULTS[n % len(self.RESULTS)]


source_st = st.one_of(st.sampled_from(SOURCES), st.text(max_size=8))
shape_st = st.fixed_dictionaries({
    'value': st.sampled_from(['pos', 'kw', 'absent']),
    'source': st.one_of(st.none(), st.none(), st.none(), source_st.map(lambda s: ['str', s]),
                        source_st.map(lambda s: ['str', s]), source_st.map(lambda s: ['str', s]),
                        source_st.map(lambda s: ['str', s]),
                        st.integers(0, len(NONSTR) - 1).map(lambda i: ['bad', i])),
    'extra': st.booleans(),
    # data items whose names coincide with parameter names used inside the library
    'odd_names': st.integers(0, 3).map(lambda n: n == 0),
    'val': st.sampled_from(['k', 'k', 0, '', None, False]),
})
PHASES = ['not started', 'task created', 'initialising', 'running', 'running', 'running',
          'aborting', 'cleaning up', 'finished']


@st.composite
def cases(draw):
    dest = draw(st.sampled_from(['rec', 'input', 'counter', 'fsm', 'latch']))
    shapes = []
    for _ in PHASES + ['failed start']:
        sh = draw(shape_st)
        if dest == 'input' and sh['value'] == 'absent':
            sh = dict(sh, value='kw')
        shapes.append(sh)
    return {'dest': dest, 'byname': draw(st.booleans()),
            'default_source': draw(st.one_of(st.none(), source_st)),
            'termination': draw(st.sampled_from(['shutdown', 'abort', 'handler', 'ctrl_abort', 'ctrl_shutdown'])),
            'sender_name': draw(st.one_of(st.sampled_from(['snd', '_ext_', '_ext_x', 'x_ext_', '_x', 'ext_', 'a b', '_ext_door-1', '_ext_a.b',
                                                           '_ext_ x', '_-', '_ ', '_ext_\n', '_\u00e9', '_ext_x y']),
                                          st.text(min_size=0, max_size=6))),
            'finalize_first': draw(st.booleans()), 'eager_attempt': draw(st.integers(0, 3)) == 0,
            'persistent': draw(st.booleans()),
            'shapes': shapes}


def strategy(tier):
    return cases()


def execute(case):
    res = Result()
    obs = {'attempts': []}
    reclog = []
    seen = []           # (etype, data) as received by the destination's event()

    async def scenario(loop):
        harness.reset()
        circuit = edzed.get_circuit()
        rec = harness.Recorder('rec', x_log=reclog)
        SlowInit('slowinit', init_timeout=10)
        SlowStop('slowstop', stop_timeout=5)
        faulty = Faulty('faulty')
        edzed.Input('ctl_src', initdef=False, on_output=[
            edzed.Event('_ctrl', edzed.EventCond('abort' if case['termination'] == 'ctrl_abort' else 'shutdown', None))])
        # a user block with a generated name as internal source
        name = case['sender_name']
        if name in RESERVED:
            obs['sender'] = 'skipped'
        else:
            try:
                edzed.Input(name, initdef=0, on_output=edzed.Event(rec, 'note'))
                obs['sender'] = 'created'
            except Exception as err:
                obs['sender'] = type(err).__name__
        kind = case['dest']
        pkw = {'persistent': True} if case.get('persistent') else {}
        if case.get('persistent'):
            circuit.set_persistent_data(harness.DeepCopyDict())
        if kind == 'rec':
            dest, etype = rec, 'x'
        elif kind == 'input':
            dest, etype = edzed.Input('dst', initdef='init', **pkw), 'put'
        elif kind == 'counter':
            dest, etype = edzed.Counter('dst', **pkw), 'inc'
        elif kind == 'latch':
            dest, etype = Latch('dst'), 'put'
        else:
            dest, etype = Toggle('dst', **pkw), 'go'
        orig = dest.event

        def spy(et, /, **data):
            seen.append((et, dict(data)))
            return orig(et, **data)
        dest.event = spy
        kwargs = {}
        if case['default_source'] is not None:
            kwargs['source'] = case['default_source']
        ev = edzed.ExtEvent(dest.name if case['byname'] else dest, etype, **kwargs)
        shapes = iter(case['shapes'])

        def attempt(phase):
            sh = next(shapes)
            data = {}
            args = ()
            k = len(obs['attempts'])
            val = 100 + k if sh['val'] == 'k' else sh['val']
            if sh['value'] == 'pos':
                args = (val,)
            elif sh['value'] == 'kw':
                data['value'] = val
            if sh['source'] is not None:
                data['source'] = sh['source'][1] if sh['source'][0] == 'str' else NONSTR[sh['source'][1]]
            if sh['extra']:
                data['extra'] = ('x', k)
                data['amount'] = 2
            if sh.get('odd_names'):
                data.update(etype='click', data=('d', k), dest='nowhere', event=0, name='n', filters=None)
            n_seen, n_rec = len(seen), len(reclog)
            state_before = (dest.output, getattr(dest, 'state', None))
            try:
                out = ['ret', ev.send(*args, **data)]
            except Exception as err:
                out = ['exc', type(err).__name__]
            if isinstance(out[1], tuple):
                out[1] = list(out[1])
            obs['attempts'].append({
                'phase': phase, 'shape': sh, 'ready': circuit.is_ready(), 'out': out,
                'seen': seen[n_seen:], 'rec_growth': len(reclog) - n_rec,
                'state_before': state_before, 'state_after': (dest.output, getattr(dest, 'state', None)),
                'sent': dict(data), 'args': args})

        if case['finalize_first']:
            circuit.finalize()
        attempt('not started')
        if case.get('eager_attempt'):
            # a start refused by edzed (eager task factory): the circuit is still not running
            loop.set_task_factory(asyncio.eager_task_factory)
            try:
                await circuit.run_forever()
                obs['eager_start'] = 'returned'
            except RuntimeError:
                obs['eager_start'] = 'refused'
            except BaseException as err:
                obs['eager_start'] = type(err).__name__
            finally:
                loop.set_task_factory(None)
            attempt('failed start')
        task = asyncio.create_task(circuit.run_forever())
        attempt('task created')
        await asyncio.sleep(0)
        attempt('initialising')
        try:
            await circuit.wait_init()
        except Exception as err:
            obs['init_error'] = repr(err) + repr(circuit.error)
            task.cancel()
            return
        for _ in range(3):
            attempt('running')
        term = case['termination']
        sd = None
        if term == 'shutdown':
            sd = asyncio.create_task(circuit.shutdown())
            await asyncio.sleep(0)      # shutdown() has called abort(CancelledError)
        elif term == 'abort':
            circuit.abort(RuntimeError('external abort'))
        elif term == 'handler':
            try:
                edzed.ExtEvent(faulty, 'boom').send()
            except RuntimeError:
                pass
        else:
            edzed.ExtEvent('ctl_src').send(True)
        attempt('aborting')
        await asyncio.sleep(0.5)
        obs['cleanup_in_progress'] = not task.done()
        attempt('cleaning up')
        try:
            await (sd if sd is not None else task)
        except BaseException:
            pass
        if not task.done():
            try:
                await task
            except BaseException:
                pass
        attempt('finished')
        obs['internal_sources'] = [r['data'].get('source') for r in reclog if r['etype'] == 'note']

    harness.run_case(scenario)
    if 'init_error' in obs:
        res.fail('C14.init_failed', obs['init_error'])
        return res

    # the user block acting as internal source
    name = case['sender_name']
    if name == '' or name.startswith('_'):
        if obs['sender'] != 'ValueError':
            res.fail('C14.reserved_name_accepted', f"block name {name!r}: {obs['sender']}")
    elif name in RESERVED:
        pass        # name used by the scenario itself
    elif obs['sender'] != 'created':
        res.fail('C14.valid_name_refused', f"block name {name!r}: {obs['sender']}")
    else:
        if not obs['internal_sources']:
            res.fail('C14.internal_event_missing', "the internal sender's event was not recorded")
        for s in obs['internal_sources']:
            if s != name or s.startswith('_ext_'):
                res.fail('C14.internal_source', f"internal event carries source {s!r} (sender {name!r})")
    if not obs.get('cleanup_in_progress'):
        res.fail('C14.harness_phase', "the clean-up phase was not reached as planned")    # harness sanity

    # the attempts
    default = '_ext_' if case['default_source'] is None else prefixed(case['default_source'])
    count = 0           # Counter model
    fsm = 'a'
    latched = 0         # Latch model: number of events handled
    if case.get('eager_attempt') and obs.get('eager_start') != 'refused':
        res.fail('C14.eager_start', f"run_forever() with an eager task factory: {obs.get('eager_start')}")
    for k, a in enumerate(obs['attempts']):
        sh = a['shape']
        phase = a['phase']
        should = phase in ('initialising', 'running')
        tag = f"attempt {k} ({phase})"
        if a['ready'] != should:
            res.fail('C14.is_ready', f"{tag}: is_ready() is {a['ready']}")
        if not should:
            if a['out'] != ['exc', 'EdzedInvalidState']:
                res.fail('C14.not_refused', f"{tag}: send() gave {a['out']}, expected EdzedInvalidState")
            if a['seen'] or a['rec_growth'] or a['state_before'] != a['state_after']:
                res.fail('C14.delivered_when_not_running', f"{tag}: destination saw {a['seen']}")
            continue
        bad_source = sh['source'] is not None and sh['source'][0] == 'bad'
        if bad_source:
            if a['out'] != ['exc', 'TypeError']:
                res.fail('C14.nonstring_source', f"{tag}: send() gave {a['out']}, expected TypeError")
            if a['seen']:
                res.fail('C14.nonstring_source_delivered', f"{tag}: destination saw {a['seen']}")
            continue
        want = {kk: v for kk, v in a['sent'].items() if kk != 'source'}
        if a['args']:
            want['value'] = a['args'][0]
        want['source'] = default if sh['source'] is None else prefixed(sh['source'][1])
        etype = {'rec': 'x', 'input': 'put', 'counter': 'inc', 'fsm': 'go', 'latch': 'put'}[case['dest']]
        if len(a['seen']) < 1 or a['seen'][0] != (etype, want):
            res.fail('C14.delivered_data', f"{tag}: destination saw {a['seen'][:1]}, expected {(etype, want)}")
            continue
        src = a['seen'][0][1]['source']
        if not src.startswith('_ext_'):
            res.fail('C14.unmarked', f"{tag}: delivered source {src!r}")
        # the handler's result
        if case['dest'] == 'rec':
            ok = a['out'][0] == 'ret' and a['out'][1][:2] == ['rec', 'rec']
        elif case['dest'] == 'input':
            ok = a['out'] == ['ret', True] and a['state_after'][0] == want['value']
        elif case['dest'] == 'latch':
            result = Latch.RESULTS[latched % len(Latch.RESULTS)]
            latched += 1
            ok = a['out'][0] == 'ret' and a['out'][1] is result and a['state_after'][0] == latched
        elif case['dest'] == 'counter':
            count += want.get('amount', 1)
            ok = a['out'] == ['ret', count] and a['state_after'][0] == count
        else:
            fsm = 'b' if fsm == 'a' else 'a'
            ok = a['out'] == ['ret', True] and a['state_after'][1] == fsm
        if not ok:
            res.fail('C14.handler_result', f"{tag}: send() gave {a['out']}, destination state {a['state_after']}")
    res.nontrivial = True
    res.classes = [f"dest={case['dest']}", f"termination={case['termination']}"]
    if case.get('persistent') and case['dest'] != 'rec':
        res.classes.append('persistent destination')
    if any(sh['source'] is not None and sh['source'][0] == 'bad' for sh in case['shapes'][2:6]):
        res.classes.append('non-string source while running')
    if name.startswith('_') or name == '':
        res.classes.append('reserved/empty sender name')
    res.outcome = {'attempts': [(a['phase'], a['out'][0]) for a in obs['attempts']]}
    return res
