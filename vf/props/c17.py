"""C17 - an Input never outputs a value that its validators reject."""
import copy

from hypothesis import strategies as st

import edzed

from .. import harness
from ..runner import Result

ID = 'C17'
LEVEL = 'exploration'
BUDGET = {'quick': 3000, 'thorough': 12000}
RULE = ("Case = block kind (Input / InputExp) x presence of allowed/check/schema (8 combinations) "
        "with validator definitions drawn over the domain {-1,0,1,2,'a',None,1.5,(1,),[1]} "
        "(one unhashable member), schema in {identity,int,str,double,raise-for-subset,map-to-None/0/''/()}, check "
        "returning assorted truthy/falsy objects, initdef / expired / restored persistent value "
        "inside or outside the accepted set, and a sequence of <=6 puts (InputExp: also waits "
        "across the expiration). Oracle: accept iff in allowed and check truthy and schema does "
        "not raise; output = schema(value). Non-trivial = >=2 validators present, and the put "
        "sequence contains an accepted put followed later by a rejected one; distinct by descriptor.")
ASSUMPTIONS = [
    "validation of a restored InputExp value is not asserted (anchor is Input._restore_state)",
    "InputExp timing uses integer virtual instants that cannot tie with the 10 s expiration",
]

DOMAIN = [-1, 0, 1, 2, 'a', None, 1.5, (1,), [1]]
HASHABLE = [i for i, v in enumerate(DOMAIN) if not isinstance(v, list)]
TRUTHY = [True, 1, 'y', (0,)]
FALSY = [False, 0, '', None]
SCHEMAS = ['identity', 'int', 'str', 'double', 'raise_some', 'to_falsy']
FALSY_OUT = [None, 0, '', ()]      # legitimate schema results (a lookup table may map a value to None)


class Missing:
    pass


def schema_apply(kind, raise_set, idx):
    """-> ('ok', value) | ('raise',)"""
    v = DOMAIN[idx]
    if kind == 'identity':
        return ('ok', v)
    if kind == 'int':
        try:
            return ('ok', int(v))
        except (TypeError, ValueError):
            return ('raise',)
    if kind == 'str':
        return ('ok', str(v))
    if kind == 'double':
        try:
            return ('ok', v * 2)
        except TypeError:
            return ('raise',)
    if kind == 'raise_some':
        return ('raise',) if idx in raise_set else ('ok', v)
    if kind == 'to_falsy':
        return ('ok', FALSY_OUT[idx % len(FALSY_OUT)])
    raise AssertionError(kind)


def index_of(value):
    """index of an original domain value (by type and equality), or None"""
    for i, v in enumerate(DOMAIN):
        if type(v) is type(value) and v == value:
            return i
    return None


def make_schema(kind, raise_set):
    if kind == 'identity':
        return lambda v: v
    if kind == 'int':
        return int
    if kind == 'str':
        return str
    if kind == 'double':
        return lambda v: v * 2
    if kind == 'to_falsy':
        return lambda v: FALSY_OUT[(index_of(v) or 0) % len(FALSY_OUT)]

    def raise_some(v):
        i = index_of(v)
        if i in raise_set:
            raise RuntimeError(f"schema refuses {v!r}")
        return v
    return raise_some


def make_check(accept_set, calls):
    def check(v):
        i = index_of(v)
        calls.append(i)
        if i is not None and i in accept_set:
            return TRUTHY[i % len(TRUTHY)]
        return FALSY[(i or 0) % len(FALSY)]
    return check


class Model:
    def __init__(self, case):
        self.case = case

    def accept(self, idx):
        c = self.case
        if c['allowed'] is not None:
            if idx not in HASHABLE or idx not in c['allowed']:
                return None
        if c['check'] is not None and idx not in c['check']:
            return None
        if c['schema'] is not None:
            r = schema_apply(c['schema'], c['raise_set'], idx)
            if r[0] == 'raise':
                return None
            return r
        return ('ok', DOMAIN[idx])


idx_any = st.integers(0, len(DOMAIN) - 1)


def biased_subset(universe):
    """subsets with most members present (validators that accept most values)"""
    return st.lists(st.integers(0, 9), min_size=len(universe), max_size=len(universe)).map(
        lambda ws: [u for u, w in zip(universe, ws) if w >= 3])


subset = biased_subset(HASHABLE)
anysubset = biased_subset(list(range(len(DOMAIN))))


@st.composite
def cases(draw):
    block = draw(st.sampled_from(['Input', 'Input', 'InputExp']))
    allowed = draw(st.one_of(st.none(), subset, subset))
    check = draw(st.one_of(st.none(), anysubset, anysubset))
    schema = draw(st.one_of(st.none(), st.sampled_from(SCHEMAS)))
    raise_set = sorted(set(range(len(DOMAIN))) - set(draw(anysubset))) if schema == 'raise_some' else []
    case = {'block': block, 'allowed': allowed, 'check': check, 'schema': schema,
            'raise_set': raise_set}
    model = Model(case)
    accepted = [i for i in range(len(DOMAIN)) if model.accept(i) is not None]

    def mostly_accepted(none_ok):
        opts = [idx_any]
        if accepted:
            opts += [st.sampled_from(accepted)] * 5
        if none_ok:
            opts.append(st.none())
        return draw(st.one_of(opts))
    rejected = [i for i in range(len(DOMAIN)) if i not in accepted]
    # puts alternate between accepted and rejected values (construction, not rejection sampling)
    if accepted and rejected:
        put_idx = st.one_of(st.sampled_from(accepted), st.sampled_from(accepted), st.sampled_from(rejected), idx_any)
    else:
        put_idx = idx_any
    if block == 'Input':
        case['initdef'] = mostly_accepted(none_ok=False)
        case['restore'] = draw(st.one_of(st.none(), st.none(), idx_any))
        if draw(st.integers(0, 9)) == 0:
            case['initdef'] = None
        case['ops'] = [['put', i] for i in draw(st.lists(put_idx, min_size=draw(st.sampled_from([0, 2, 3])), max_size=6))]
    else:
        case['initdef'] = mostly_accepted(none_ok=True)
        case['expired'] = mostly_accepted(none_ok=False)
        case['restore'] = None
        case['ops'] = draw(st.lists(st.one_of(
            put_idx.map(lambda i: ['put', i]), put_idx.map(lambda i: ['put', i]),
            st.sampled_from([3, 11]).map(lambda d: ['wait', d])), min_size=draw(st.sampled_from([0, 2, 3])), max_size=6))
    # feed results back: a put of the value that the previous accepted put produced (a schema need
    # not be idempotent, an equal value may be of another type)
    last = None
    for op in case['ops']:
        if op[0] != 'put':
            continue
        if last is not None and draw(st.integers(0, 3)) == 0:
            op[1] = last
        acc = model.accept(op[1])
        if acc is not None:
            k = index_of(acc[1])
            last = k if k is not None else last
    return case


def strategy(tier):
    return cases()


def same(a, b):
    if isinstance(b, Either):
        return any(same(a, x) for x in b.options)
    return type(a) is type(b) and a == b


class Either:
    """set-valued expectation (the property does not say whether the 'expired' output is
    the raw argument or schema(argument); both are accepted)"""
    def __init__(self, *options):
        self.options = options

    def __repr__(self):
        return ' or '.join(repr(o) for o in self.options)


def execute(case):
    res = Result()
    model = Model(case)
    check_calls = []
    kwargs = {}
    if case['allowed'] is not None:
        kwargs['allowed'] = [DOMAIN[i] for i in case['allowed']]
    if case['check'] is not None:
        kwargs['check'] = make_check(set(case['check']), check_calls)
    if case['schema'] is not None:
        kwargs['schema'] = make_schema(case['schema'], set(case['raise_set']))
    is_exp = case['block'] == 'InputExp'
    init = case['initdef']
    init_acc = model.accept(init) if init is not None else ('none',)
    exp_acc = model.accept(case['expired']) if is_exp else ('none',)
    expect_ctor_ok = init_acc is not None and exp_acc is not None
    obs = []
    ctor = {}

    async def scenario(loop):
        harness.reset()
        circuit = edzed.get_circuit()
        kw = dict(kwargs)
        if init is not None:
            kw['initdef'] = copy.deepcopy(DOMAIN[init])
        try:
            if is_exp:
                blk = edzed.InputExp('inp', duration=10, expired=copy.deepcopy(DOMAIN[case['expired']]), **kw)
            else:
                blk = edzed.Input('inp', persistent=True, **kw)
        except Exception as err:
            ctor['exc'] = err
            return
        ctor['ok'] = True
        storage = None
        if not is_exp:
            storage = harness.DeepCopyDict()
            if case['restore'] is not None:
                storage[blk.key] = copy.deepcopy(DOMAIN[case['restore']])
            circuit.set_persistent_data(storage)
        t0 = loop.time()
        async with harness.Running() as sim:
            if sim.init_error is not None:
                obs.append(('initfail', harness.exc_name(circuit.error)))
                return
            obs.append(('init', blk.output, None if storage is None else storage.snapshot().get(blk.key, Missing)))
            now = 0
            for op in case['ops']:
                if op[0] == 'wait':
                    now += op[1]
                    await harness.vloop.sleep_until(loop, t0 + now)
                    await harness.quiesce(loop)
                    obs.append(('wait', blk.output, circuit.is_ready()))
                    continue
                before = copy.deepcopy(blk.get_state())
                try:
                    r = edzed.ExtEvent(blk, 'put').send(copy.deepcopy(DOMAIN[op[1]]))
                except Exception as err:
                    r = ('EXC', type(err).__name__, str(err)[:80])
                await harness.quiesce(loop)
                obs.append(('put', r, blk.output, before, copy.deepcopy(blk.get_state()),
                            circuit.is_ready(), harness.exc_name(circuit.error),
                            None if storage is None else storage.snapshot().get(blk.key, Missing)))

    harness.run_case(scenario)

    # ---- constructor
    if 'exc' in ctor:
        if expect_ctor_ok:
            res.fail('C17.valid_config_refused', f"constructor raised {ctor['exc']!r}")
        elif not isinstance(ctor['exc'], ValueError):
            res.fail('C17.ctor_wrong_exception', repr(ctor['exc']))
        res.classes = ['ctor refused']
        res.nontrivial = False
        return res
    if not expect_ctor_ok:
        res.fail('C17.invalid_initdef_accepted',
                 f"initdef={DOMAIN[init] if init is not None else None!r} "
                 f"expired={DOMAIN[case['expired']] if is_exp else None!r} accepted by the constructor")
        return res

    # ---- initial value
    it = iter(obs)
    first = next(it)
    if is_exp:
        expired_out = Either(exp_acc[1], DOMAIN[case['expired']])
        if init is not None:
            exp_out, expiry = init_acc[1], 10
        else:
            exp_out, expiry = expired_out, None
        expect_initfail = False
    else:
        exp_out = Missing
        racc = model.accept(case['restore']) if case['restore'] is not None else None
        if racc is not None:
            exp_out = racc[1]
        elif init is not None:
            exp_out = init_acc[1]
        expect_initfail = exp_out is Missing
    if first[0] == 'initfail':
        if not expect_initfail:
            res.fail('C17.init_failed', f"start-up failed: {first[1]}")
        res.classes = ['init fails (no value)']
        return res
    if expect_initfail:
        res.fail('C17.init_should_fail', f"no acceptable init value, but output is {first[1]!r}")
        return res
    if not same(first[1], exp_out):
        res.fail('C17.initial_output', f"output {first[1]!r}, expected {exp_out!r}")
    cur = exp_out
    if not is_exp and not same(first[2], cur):
        res.fail('C17.persistent_value', f"stored {first[2]!r} after init, expected {cur!r}")
    now = 0
    seen_accept = False
    reject_after_accept = False
    for op in case['ops']:
        o = next(it)
        if op[0] == 'wait':
            now += op[1]
            if expiry is not None and now > expiry:
                cur, expiry = expired_out, None
            if not same(o[1], cur):
                res.fail('C17.output_after_wait', f"t={now}: output {o[1]!r}, expected {cur!r}")
            if not o[2]:
                res.fail('C17.simulation_stopped', f"t={now}")
            continue
        if is_exp and expiry is not None and now > expiry:
            cur, expiry = expired_out, None
        acc = model.accept(op[1])
        _, r, out, before, after, ready, err, stored = o
        v = DOMAIN[op[1]]
        if acc is None:
            if seen_accept:
                reject_after_accept = True
            if r is not False:
                res.fail('C17.rejected_put_result', f"put({v!r}) -> {r!r}, expected False")
            if not same(out, cur):
                res.fail('C17.rejected_put_changed_output', f"put({v!r}): output {out!r}, was {cur!r}")
            if before != after:
                res.fail('C17.rejected_put_changed_state', f"put({v!r}): state {before!r} -> {after!r}")
        else:
            seen_accept = True
            if r is not True:
                res.fail('C17.accepted_put_result', f"put({v!r}) -> {r!r}, expected True")
            cur = acc[1]
            if is_exp:
                expiry = now + 10
            if not same(out, cur):
                res.fail('C17.output', f"put({v!r}): output {out!r}, expected {cur!r}")
        if not ready:
            res.fail('C17.simulation_stopped', f"after put({v!r}): error {err}")
        if not is_exp and not same(stored, cur):
            res.fail('C17.persistent_value', f"after put({v!r}): stored {stored!r}, expected {cur!r}")
    nvalid = sum(case[k] is not None for k in ('allowed', 'check', 'schema'))
    res.nontrivial = nvalid >= 2 and reject_after_accept
    res.classes = [case['block'], f'validators={nvalid}']
    if case['restore'] is not None:
        res.classes.append('restored')
    if any(op[0] == 'put' and op[1] == 8 for op in case['ops']) and case['allowed'] is not None:
        res.classes.append('unhashable vs allowed')
    res.outcome = {'final': repr(cur)}
    return res
