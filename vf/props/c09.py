"""C09 - the first error stops the simulation and is the one that gets reported.

Generator: a timeline of 1-4 groups of actions at virtual instants (several actions in one
instant, in order): fatal sources of different kinds, cancellations, benign stimuli; a
monitored block task failing at an off-grid instant; abort() before the start; entry through
edzed.run() with a supporting task that returns or fails, or through a bare run_forever().
Oracle: the first fatal source in order of delivery to the simulator decides Circuit.error,
what run_forever()/shutdown()/run() raise or return; benign stimuli change nothing.
"""
import asyncio

from hypothesis import strategies as st

import edzed

from .. import harness
from ..runner import Result

ID = 'C09'
LEVEL = 'exploration'
BUDGET = {'quick': 3000, 'thorough': 12000}
FATAL = ['handler', 'calc', 'cb_handler', 'abort', 'ctrl_abort', 'ctrl_shutdown', 'cancel']
BENIGN = ['unknown', 'noparam', 'badsource']
RULE = ("Case = entry point (edzed.run with a supporting task ending by return/exception immediately or 1 s "
        "after its last action; or run_forever + shutdown) x optional abort() before the start x optional "
        "monitored block task failing at an off-grid instant x optional monitored block task sending an event to a "
        "failing handler x timeline of 1-4 instants with 1-3 actions each "
        "from {failing event handler (caller catches), calc_output error, abort(exc), 'abort' control event, "
        "'shutdown' control event, abort(CancelledError), unknown event type, missing parameter, non-string "
        "source}; the circuit also contains blocks whose init_async, _restore_state, stop and stop_async fail. "
        "Non-trivial = >=2 competing fatal/cancelling sources; distinct by descriptor.")
ASSUMPTIONS = [
    "order of delivery: a calc_output error is raised when the simulator task next runs, so inside one "
    "instant it loses against a handler error, abort() or a control event issued by the same driver step",
    "the monitored task fails at an instant that no driver action shares (no tie)",
    "clean-up takes no virtual time in these circuits, so a supporting task that is still busy 1 s later is "
    "cancelled before it can fail",
]


class E1(Exception):
    pass


class E2(Exception):
    pass


class E3(Exception):
    pass


class B(edzed.SBlock):
    def init_regular(self):
        self.set_output(0)

    def _event_boom(self, **_data):
        raise E1('handler failed')

    def _event_put(self, *, value, **_data):
        self.set_output(value)
        return True


class MT(edzed.AddonMainTask, edzed.SBlock):
    def init_regular(self):
        self.set_output(0)

    async def _maintask(self):
        await asyncio.sleep(self.x_at)
        raise E2('monitored task failed')


class MTS(edzed.AddonMainTask, edzed.SBlock):
    """a monitored block task that sends an event to a failing handler and does not catch"""
    def init_regular(self):
        self.set_output(0)

    async def _maintask(self):
        await asyncio.sleep(self.x_at)
        self.x_event.send(self, value=1)        # raises: handled by the task monitor
        await asyncio.sleep(10 ** 6)


class BenignInit(edzed.AddonPersistence, edzed.AddonAsync, edzed.SBlock):
    """asynchronous initialisation and state restoration fail; initdef saves the day"""
    async def init_async(self):
        raise RuntimeError('init_async failed')

    def _restore_state(self, state):
        raise RuntimeError('saved state rejected')

    def init_from_value(self, value):
        self.set_output(value)

    def stop(self):
        super().stop()
        raise RuntimeError('stop failed')

    async def stop_async(self):
        raise RuntimeError('stop_async failed')


@st.composite
def cases(draw):
    groups = []
    t = 0.0
    for _ in range(draw(st.integers(1, 4))):
        t += draw(st.sampled_from([0.0, 1.0, 1.0, 2.0])) if groups else 1.0
        acts = draw(st.lists(st.sampled_from(FATAL + FATAL + BENIGN), min_size=1, max_size=3))
        if groups and groups[-1]['t'] == t:
            groups[-1]['actions'].extend(acts)
        else:
            groups.append({'t': t, 'actions': acts})
    return {'entry': draw(st.sampled_from(['run', 'run', 'rf'])),
            'sup_end': draw(st.sampled_from(['return0', 'return1', 'fail0', 'fail1'])),
            'abort_before_start': draw(st.sampled_from([None] * 8 + ['E3', 'cancel'])),
            # a control event sent while the blocks are being initialised (by a block's first output)
            'init_ctrl': draw(st.sampled_from([None] * 8 + ['abort', 'shutdown'])),
            'mt_at': draw(st.sampled_from([None, None, 0.25, 1.25, 2.25, 3.25])),
            'mts_at': draw(st.sampled_from([None, None, None, 0.75, 1.75, 2.75])),
            'groups': groups}


# The task running the simulation is cancelled directly (what asyncio.run() does on Ctrl-C) while blocks
# are still in their asynchronous initialisation; each init_async() honours the interruption, cleans up
# for a moment first, or turns it into an ordinary failure ("failures of asynchronous initialisation are
# only logged", "a cancellation counts as a normal stop").
def _mk_taskcancel(blocks, entry, t):
    # The routine the simulator is waiting for at that moment (largest init_timeout first, creation order
    # among equals) must let the interruption through: a coroutine that answers its cancellation with
    # another exception swallows the cancellation of whoever awaits it - the request then never reaches
    # the simulator, which is asyncio's rule, not edzed's.
    first = max(range(len(blocks)), key=lambda i: (blocks[i]['timeout'], -i))
    if blocks[first]['react'] == 'exc':
        blocks[first] = dict(blocks[first], react='slow')
    return {'k': 'taskcancel', 'blocks': blocks, 'entry': entry, 't': t}


taskcancel_cases = st.builds(
    _mk_taskcancel,
    st.lists(st.fixed_dictionaries({'timeout': st.sampled_from([5, 10, 20]),
                                    'delay': st.sampled_from([3, 8, 30]),
                                    'react': st.sampled_from(['honour', 'slow', 'exc', 'exc'])}),
             min_size=1, max_size=4),
    st.sampled_from(['run', 'run_forever']), st.sampled_from([0.0, 0.3, 0.3, 1.0, 40.0]))


def strategy(tier):
    return st.integers(0, 9).flatmap(lambda i: taskcancel_cases if i == 0 else cases())


class SlowInit(edzed.AddonAsync, edzed.SBlock):
    async def init_async(self):
        try:
            await asyncio.sleep(self.x_cfg['delay'])
        except asyncio.CancelledError:
            if self.x_cfg['react'] == 'slow':
                await asyncio.sleep(0.4)
            elif self.x_cfg['react'] == 'exc':
                raise RuntimeError('init_async: interrupted') from None
            raise
        self.set_output('async')

    def init_from_value(self, value):
        self.set_output(value)


def exec_taskcancel(case):
    res = Result()
    obs = {}

    async def scenario(loop):
        harness.reset()
        circuit = edzed.get_circuit()
        for i, cfg in enumerate(case['blocks']):
            SlowInit(f'a{i}', x_cfg=cfg, initdef='default', init_timeout=float(cfg['timeout']))
        coro = edzed.run() if case['entry'] == 'run' else circuit.run_forever()
        runner = asyncio.create_task(coro)
        await asyncio.sleep(case['t'] + 0.01)
        obs['ready_before'] = circuit.is_ready()
        obs['done_before'] = runner.done()
        runner.cancel()
        try:
            obs['result'] = ['ret', repr(await runner)]
        except asyncio.CancelledError:
            obs['result'] = ['cancelled', None]
        except Exception as err:
            obs['result'] = ['exc', repr(err)]
        obs['error'] = harness.exc_name(circuit.error)
        obs['ready_after'] = circuit.is_ready()
        try:
            await circuit.shutdown()
            obs['shutdown'] = 'returned'
        except BaseException as err:
            obs['shutdown'] = repr(err)
        await harness.quiesce(loop)
        obs['pending'] = [t.get_name() for t in asyncio.all_tasks(loop)
                          if t is not asyncio.current_task() and not t.done()]

    harness.run_case(scenario)
    tag = f"task running {case['entry']}() cancelled at t={case['t']}: "
    if obs['done_before']:
        res.fail('C09.ended_early', tag + f"the simulation had ended by itself: {obs['result']}")
        return res
    if obs['result'][0] == 'exc' or (obs['result'][0] == 'ret' and obs['result'][1] != 'None'):
        res.fail('C09.cancel_not_normal_stop', tag + f"outcome {obs['result']}")
    if obs['error'] != 'CancelledError':
        res.fail('C09.circuit_error', tag + f"Circuit.error is {obs['error']}, expected the cancellation")
    if obs['ready_after']:
        res.fail('C09.ready_after_stop', tag + "is_ready() still true")
    if obs['shutdown'] != 'returned':
        res.fail('C09.shutdown_raised', tag + f"shutdown() raised {obs['shutdown']}")
    if obs['pending']:
        res.fail('C09.task_left', tag + f"pending tasks {obs['pending']}")
    longest = max(min(b['timeout'], b['delay']) for b in case['blocks'])
    during_init = case['t'] < longest
    res.nontrivial = during_init and len(case['blocks']) >= 2 and any(b['react'] != 'honour' for b in case['blocks'])
    res.classes = ['run task cancelled directly', 'during asynchronous initialisation' if during_init else 'while running']
    res.outcome = {'result': obs['result'][0]}
    return res


ERR_OF = {'handler': ('EdzedCircuitError', 'E1'), 'abort': ('E3', None),
          'ctrl_abort': ('EdzedCircuitError', None), 'ctrl_shutdown': ('CancelledError', None),
          'cancel': ('CancelledError', None), 'mt': ('E2', None), 'calc': ('ValueError', None),
          'cb_handler': ('EdzedCircuitError', 'E1'), 'mts': ('EdzedCircuitError', 'E1')}


def model(case):
    """-> dict(error, cause, fatal_at (instant or None), competing)"""
    if case['abort_before_start']:
        return {'error': 'E3' if case['abort_before_start'] == 'E3' else 'CancelledError', 'cause': None,
                'at': -1.0, 'competing': 1, 'before_start': True}
    if case.get('init_ctrl'):
        # delivered during the synchronous initialisation: nothing else can come first
        return {'error': 'EdzedCircuitError' if case['init_ctrl'] == 'abort' else 'CancelledError',
                'cause': None, 'at': -1.0, 'competing': 1, 'before_start': True}
    timeline = [(g['t'], list(g['actions'])) for g in case['groups']]
    last_t = case['groups'][-1]['t']
    end = last_t + 0.5 if case['entry'] == 'rf' else last_t + (1 if case['sup_end'].endswith('1') else 0)
    if case['mt_at'] is not None and case['mt_at'] < end:
        timeline.append((case['mt_at'], ['mt']))     # otherwise the run is over before it fails
    if case.get('mts_at') is not None and case['mts_at'] < end:
        timeline.append((case['mts_at'], ['mts']))
    timeline.sort(key=lambda x: x[0])
    err = None
    at = None
    competing = 0
    for t, actions in timeline:
        deferred = None
        for a in actions:
            if a in BENIGN:
                continue
            competing += 1
            if err is not None:
                continue
            if a in ('calc', 'cb_handler'):
                deferred = a        # both put a value into the same source: the last one is evaluated
            else:
                err, at = ERR_OF[a], t
        if err is None and deferred:
            err, at = ERR_OF[deferred], t
    return {'error': err[0] if err else None, 'cause': err[1] if err else None, 'at': at,
            'competing': competing, 'before_start': False}


def execute(case):
    if case.get('k') == 'taskcancel':
        return exec_taskcancel(case)
    res = Result()
    obs = {'ready_after': []}

    async def scenario(loop):
        harness.reset()
        circuit = edzed.get_circuit()
        b = B('b')

        def f(x):
            if x == 'bad':
                raise ValueError('calc_output failed')
            return x
        edzed.FuncBlock('f', func=f).connect(b)
        b2 = B('b2')
        # an event handler failing inside the simulator task (sent by a combinational block)
        edzed.FuncBlock('g', func=lambda x: x == 'evt',
                        on_output=edzed.Event(b2, edzed.EventCond('boom', None))).connect(b)
        edzed.Event('_ctrl', 'abort')           # makes the control block exist
        storage = harness.DeepCopyDict()
        bi = BenignInit('bi', persistent=True, initdef=1, init_timeout=2, stop_timeout=2)
        storage[bi.key] = 'junk'
        # library blocks whose saved state is unusable (damaged file, other version): the failure of
        # the restoration is only logged, the blocks start from their arguments
        lib = [
            (edzed.TimeDate('ptd', times='1:00-2:00', persistent=True),
             {'times': [[[25, 0, 0, 0], [26, 0, 0, 0]]], 'dates': None, 'weekdays': None}),
            (edzed.TimeDate('ptd2', weekdays='1', persistent=True), {'times': None, 'dates': None, 'weekdays': [9]}),
            (edzed.TimeSpan('pts', span='2020-01-01 0:00 / 2020-01-02 0:00', persistent=True),
             {'span': [[[2020, 13, 1, 0, 0, 0, 0], [2020, 1, 2, 0, 0, 0, 0]]]}),
            (edzed.Counter('pcn', modulo=7, persistent=True), 'abc'),
            (edzed.Input('pin', initdef=1, check=lambda v: v > 0, persistent=True), -5),
            (edzed.Timer('ptm', t_on=100, persistent=True), ['no_such_state', None, {}]),
            (edzed.InputExp('pie', duration=100, initdef=3, persistent=True), 5),
        ]
        for blk, saved in lib:
            storage[blk.key] = saved
        circuit.set_persistent_data(storage)
        if case['mt_at'] is not None:
            MT('mt', x_at=case['mt_at'])
        if case.get('mts_at') is not None:
            MTS('mts', x_at=case['mts_at'], x_event=edzed.Event(b2, 'boom'))
        if case.get('init_ctrl') and not case['abort_before_start']:
            edzed.Input('ic', initdef=1, on_output=(
                edzed.Event.abort() if case['init_ctrl'] == 'abort' else edzed.Event.shutdown()))
        if case['abort_before_start'] == 'E3':
            circuit.abort(E3('aborted before start'))
        elif case['abort_before_start'] == 'cancel':
            circuit.abort(asyncio.CancelledError('stopped before start'))
        t0 = loop.time()

        def do(action):
            def guarded(func):
                try:
                    func()
                except Exception as err:
                    return type(err).__name__
                return None
            if action == 'handler':
                r = guarded(lambda: edzed.ExtEvent(b, 'boom').send())
            elif action == 'calc':
                r = guarded(lambda: edzed.ExtEvent(b, 'put').send('bad'))
            elif action == 'cb_handler':
                r = guarded(lambda: edzed.ExtEvent(b, 'put').send('evt'))
            elif action == 'abort':
                r = guarded(lambda: circuit.abort(E3('aborted')))
            elif action == 'ctrl_abort':
                r = guarded(lambda: edzed.ExtEvent('_ctrl', 'abort').send(error='requested'))
            elif action == 'ctrl_shutdown':
                r = guarded(lambda: edzed.ExtEvent('_ctrl', 'shutdown').send())
            elif action == 'cancel':
                r = guarded(lambda: circuit.abort(asyncio.CancelledError('stop')))
            elif action == 'unknown':
                r = guarded(lambda: edzed.ExtEvent(b, 'nope').send(1))
            elif action == 'noparam':
                r = guarded(lambda: edzed.ExtEvent(b, 'put').send())
            else:
                r = guarded(lambda: edzed.ExtEvent(b, 'put').send(1, source=5))
            obs['ready_after'].append((action, r, circuit.is_ready(),
                                       None if circuit.error is None else type(circuit.error).__name__))

        async def timeline():
            for g in case['groups']:
                await harness.vloop.sleep_until(loop, t0 + g['t'])
                for a in g['actions']:
                    do(a)

        async def sup():
            await timeline()
            if case['sup_end'].endswith('1'):
                await asyncio.sleep(1)
            if case['sup_end'].startswith('fail'):
                raise E1('supporting task failed')

        if case['entry'] == 'run':
            try:
                await edzed.run(sup())
                obs['run'] = None
            except BaseException as err:
                obs['run'] = type(err).__name__
        else:
            task = asyncio.create_task(circuit.run_forever())
            await asyncio.sleep(0)
            try:
                await circuit.wait_init()
                obs['init'] = 'ok'
            except Exception as err:
                obs['init'] = type(err).__name__
            if obs['init'] == 'ok':
                obs['ready_at_start'] = (circuit.is_ready(), circuit.error)
                await timeline()
                await asyncio.sleep(0.5)
            try:
                await circuit.shutdown()
                obs['shutdown'] = None
            except BaseException as err:
                obs['shutdown'] = type(err).__name__
            try:
                await task
                obs['rf'] = None
            except BaseException as err:
                obs['rf'] = type(err).__name__
            try:
                await circuit.shutdown()
                obs['shutdown2'] = None
            except BaseException as err:
                obs['shutdown2'] = type(err).__name__
        err = circuit.error
        obs['error'] = None if err is None else type(err).__name__
        obs['cause'] = None if err is None or err.__cause__ is None else type(err.__cause__).__name__
        obs['ready_end'] = circuit.is_ready()
        # later errors never replace the first one, the circuit stays not ready
        circuit.abort(E3('too late'))
        await asyncio.sleep(5)
        obs['error_later'] = None if circuit.error is None else type(circuit.error).__name__
        obs['ready_later'] = circuit.is_ready()
        try:
            await circuit.run_forever()
            obs['restart'] = None
        except BaseException as err:
            obs['restart'] = type(err).__name__

    harness.run_case(scenario)
    m = model(case)
    exp_err = m['error'] or 'CancelledError'       # no fatal source: the run ends by a normal stop
    if obs['error'] != exp_err:
        res.fail('C09.circuit_error', f"Circuit.error is {obs['error']}, the first error delivered was {exp_err}")
    elif m['cause'] and obs['cause'] != m['cause']:
        res.fail('C09.cause', f"Circuit.error.__cause__ is {obs['cause']}, expected {m['cause']}")
    if obs['error_later'] != obs['error']:
        res.fail('C09.error_replaced', f"Circuit.error changed from {obs['error']} to {obs['error_later']}")
    if obs['ready_end'] or obs['ready_later']:
        res.fail('C09.ready_after_stop', "is_ready() is True after the simulation has stopped")
    if obs['restart'] != 'EdzedInvalidState':
        res.fail('C09.restart', f"a second run_forever() gave {obs['restart']}")
    cancel = exp_err == 'CancelledError'
    if case['entry'] == 'run':
        if not cancel:
            want = exp_err
        else:
            last_t = case['groups'][-1]['t']
            if m['error'] is None:
                want = 'E1' if case['sup_end'].startswith('fail') else None
            elif m['at'] == last_t and case['sup_end'] == 'fail0' and not m['before_start']:
                want = 'E1'     # the supporting task failed in the very instant of the cancellation
            else:
                want = None
        if m['before_start'] and False:
            want = exp_err
        if obs['run'] != want:
            res.fail('C09.run_result', f"run() {'raised ' + obs['run'] if obs['run'] else 'returned None'}, "
                     f"expected {want}; Circuit.error {obs['error']}")
    else:
        if m['before_start']:
            if obs.get('init') == 'ok':
                res.fail('C09.abort_before_start', "the circuit started although abort() was called before")
        want_rf = exp_err
        if obs.get('rf') != want_rf:
            res.fail('C09.run_forever_result', f"run_forever() ended with {obs.get('rf')}, expected {want_rf}")
        want_sd = None if cancel else exp_err
        if obs.get('shutdown') != want_sd or obs.get('shutdown2') != want_sd:
            res.fail('C09.shutdown_result', f"shutdown() gave {obs.get('shutdown')} / {obs.get('shutdown2')}, "
                     f"expected {want_sd}")
    # benign stimuli before the first fatal source
    seen_fatal = m['before_start']
    k = 0
    for g in case['groups']:
        deferred = False
        for a in g['actions']:
            if k >= len(obs['ready_after']):
                break
            action, r, ready, err = obs['ready_after'][k]
            k += 1
            passed_mt = (case['mt_at'] is not None and case['mt_at'] < g['t']) or (
                case.get('mts_at') is not None and case['mts_at'] < g['t'])
            if seen_fatal or passed_mt:
                continue
            if a in BENIGN:
                want_exc = {'unknown': 'EdzedUnknownEvent', 'noparam': 'TypeError', 'badsource': 'TypeError'}[a]
                if r != want_exc:
                    res.fail('C09.benign_report', f"t={g['t']} {a}: caller got {r}, expected {want_exc}")
                if not ready or err is not None:
                    res.fail('C09.benign_fatal', f"t={g['t']} {a}: is_ready() {ready}, Circuit.error {err}")
            elif a in ('calc', 'cb_handler'):
                if not ready:
                    res.fail('C09.benign_fatal', f"t={g['t']} put of the bad value itself stopped the simulation")
                deferred = True
            else:
                seen_fatal = True
                if a == 'handler' and r != 'E1':
                    res.fail('C09.handler_error_not_reported', f"caller got {r}")
                if ready:
                    res.fail('C09.still_ready', f"t={g['t']} after {a}: is_ready() is still True")
        if deferred:
            seen_fatal = True
    res.nontrivial = m['competing'] >= 2
    res.classes = [f"entry={case['entry']}", f"first={m['error'] or 'none (normal stop)'}"]
    if m['competing'] >= 2:
        res.classes.append('competing sources')
    if any(len([a for a in g['actions'] if a not in BENIGN]) >= 2 for g in case['groups']):
        res.classes.append('>=2 sources in one instant')
    if case['abort_before_start']:
        res.classes.append('abort before start')
    elif case.get('init_ctrl'):
        res.classes.append('control event during initialisation')
    res.outcome = {'error': obs['error'], 'run': obs.get('run'), 'rf': obs.get('rf')}
    return res
