"""C20 - Counter arithmetic is exact and stays within the modulo range.

Generator: modulo, initdef, optional persistent restore value, operation sequence.
Oracle: Fraction accumulator reduced into [0, M) after every step.
"""
import itertools
from fractions import Fraction

from hypothesis import strategies as st

import edzed

from .. import harness
from ..runner import Result

ID = 'C20'
LEVEL = 'exploration'
BUDGET = {'quick': 3000, 'thorough': 12000}
RULE = ("Hypothesis-generated (modulo, initdef, optional out-of-range persistent value, "
        "sequence of <=12 inc/dec/put/reset/put-without-value/unknown events (also carrying the data items of "
        "another block's output event - previous, value, trigger - or other unrelated items) with amounts "
        "from small, negative, big-integer and quarter-grid float pools); thorough adds all "
        "sequences of length <=6 over the 10-operation alphabet {inc,dec,put}x{-3,1,2}+reset "
        "for modulo in {None,7}. Non-trivial = sequence with >=3 arithmetic steps in which "
        "the modulo reduction changed a value at least once (or modulo None and a negative "
        "result), distinct by case descriptor.")
ASSUMPTIONS = [
    "floats restricted to a 1/4 grid with |x| < 2**40 so that % is exact; big integers only "
    "with integer modulo/None (exact Python int arithmetic)",
    "negative modulo not generated (property speaks of a positive modulo)",
]

MODULI = [None, ['i', 1], ['i', 2], ['i', 7], ['i', 10], ['f', 10]]     # ['f',10] = 2.5


def num(x):
    """decode a number descriptor"""
    if x is None:
        return None
    kind, n = x
    return n if kind == 'i' else n / 4


def frac(x):
    kind, n = x
    return Fraction(n) if kind == 'i' else Fraction(n, 4)


small_int = st.sampled_from([-3, 1, 2, 0, -1, 3, 5, 7, 10, 11, -7, -10, 13, 70])
big_int = st.sampled_from([10**20, -10**20 + 3, 2**64 + 1, -(2**63), 10**9 + 7])
quarter = st.integers(-200, 200)


def number(allow_float, allow_big):
    opts = [small_int.map(lambda n: ['i', n])]
    if allow_big:
        opts.append(big_int.map(lambda n: ['i', n]))
    if allow_float:
        opts.append(quarter.map(lambda q: ['f', q]))
    return st.one_of(opts)


EXTRAS = [
    {'previous': None, 'value': 'A', 'trigger': 'output'},
    {'previous': 3, 'value': 4, 'trigger': 'output', 'orig_source': 'x'},
    {'value': 99},
    {'foo': 'bar', 'repeat': 2, 'count': 5},
    {'amount_': 7, 'modulo': 3, 'initdef': 1},
]


def x_items(op):
    """data items of an 'x' operation: the extra items, overridden by the operation's own argument"""
    _, kind, arg, idx = op
    data = dict(EXTRAS[idx])
    if kind == 'put':
        data['value'] = num(arg) if arg is not None else data.get('value', 0)
        if isinstance(data['value'], str):
            data['value'] = 0
    elif arg is not None and kind != 'reset':
        data['amount'] = num(arg)
    return data


@st.composite
def cases(draw):
    modulo = draw(st.sampled_from(MODULI))
    float_mod = modulo is not None and modulo[0] == 'f'
    allow_float = draw(st.booleans())
    allow_big = not allow_float and not float_mod and draw(st.booleans())
    n = number(allow_float, allow_big)
    initdef = draw(st.one_of(st.none(), n))
    restore = draw(st.one_of(st.none(), st.none(), n))
    op = st.one_of(
        st.tuples(st.sampled_from(['inc', 'dec']), st.one_of(st.none(), n)).map(list),
        st.tuples(st.just('put'), n).map(list),
        st.just(['reset']),
        st.just(['putnoval']),
        st.just(['bogus']),
        st.tuples(st.just('inc_extra'), n).map(list),   # extra data items are ignored
        # any event with the data items of an output event of another block (previous, value, trigger)
        # or other unrelated items: ['x', kind, amount/value or None, index into EXTRAS]
        st.tuples(st.just('x'), st.sampled_from(['inc', 'dec', 'reset', 'put']), st.one_of(st.none(), n),
                  st.integers(0, len(EXTRAS) - 1)).map(list),
    )
    ops = draw(st.lists(op, min_size=0, max_size=12))
    return {'modulo': modulo, 'initdef': initdef, 'restore': restore, 'ops': ops}


def strategy(tier):
    return cases()


def exhaustive(tier):
    if tier != 'thorough':
        return None
    alphabet = [[o, ['i', a]] for o in ('inc', 'dec', 'put') for a in (-3, 1, 2)] + [['reset']]

    def gen():
        for modulo in (None, ['i', 7]):
            for seq in itertools.product(alphabet, repeat=6):
                yield {'modulo': modulo, 'initdef': ['i', 5], 'restore': None,
                       'ops': [list(o) for o in seq]}
    return ("all 10^6 sequences of length 6 (every prefix checked, hence all lengths <=6) over "
            "{inc,dec,put}x{-3,1,2}+reset, modulo in {None,7}, initdef 5", gen())


def reduce(v, mod):
    return v if mod is None else v % mod


def execute(case):
    res = Result()
    mod = case['modulo']
    fmod = None if mod is None else frac(mod)
    init = Fraction(0) if case['initdef'] is None else frac(case['initdef'])
    obs = []

    async def scenario(loop):
        harness.reset()
        kwargs = {}
        if mod is not None:
            kwargs['modulo'] = num(mod)
        if case['initdef'] is not None:
            kwargs['initdef'] = num(case['initdef'])
        storage = None
        if case['restore'] is not None:
            kwargs['persistent'] = True
        cnt = edzed.Counter('cnt', **kwargs)
        if case['restore'] is not None:
            storage = harness.DeepCopyDict({cnt.key: num(case['restore'])})
            edzed.get_circuit().set_persistent_data(storage)
        async with harness.Running() as sim:
            if sim.init_error is not None:
                res.fail('C20.init_failed', repr(sim.init_error))
                return
            obs.append(('init', cnt.output))
            for op in case['ops']:
                kind = op[0]
                try:
                    if kind in ('inc', 'dec'):
                        if op[1] is None:
                            r = edzed.ExtEvent(cnt, kind).send()
                        else:
                            r = edzed.ExtEvent(cnt, kind).send(amount=num(op[1]))
                    elif kind == 'inc_extra':
                        r = edzed.ExtEvent(cnt, 'inc').send(amount=num(op[1]), foo='bar', value=99)
                    elif kind == 'x':
                        r = edzed.ExtEvent(cnt, op[1]).send(**x_items(op))
                    elif kind == 'put':
                        r = edzed.ExtEvent(cnt, 'put').send(num(op[1]))
                    elif kind == 'reset':
                        r = edzed.ExtEvent(cnt, 'reset').send()
                    elif kind == 'putnoval':
                        r = edzed.ExtEvent(cnt, 'put').send()
                    elif kind == 'bogus':
                        r = edzed.ExtEvent(cnt, 'no_such_event').send()
                    else:
                        raise AssertionError(kind)
                    obs.append((kind, 'ret', r, cnt.output))
                except Exception as err:
                    obs.append((kind, 'exc', type(err).__name__, cnt.output))
                await harness.quiesce(loop)
                obs.append(('ready', sim.circuit.is_ready(), harness.exc_name(sim.circuit.error)))
            if storage is not None:
                obs.append(('stored', storage.snapshot().get(cnt.key)))

    # modulo 0 must be refused (checked cheaply in every case)
    harness.reset()
    for zero in (0, 0.0):
        try:
            edzed.Counter('z', modulo=zero)
        except ValueError:
            pass
        except Exception as err:
            res.fail('C20.modulo_zero_wrong_exception', repr(err))
        else:
            res.fail('C20.modulo_zero_accepted', repr(zero))
        # 'refused at construction': nothing of the refused counter is left behind in the circuit,
        # the application may go on with a valid one (also under the same name)
        left = [b.name for b in edzed.get_circuit().getblocks()]
        if left:
            res.fail('C20.modulo_zero_left_in_circuit', f"after the refused Counter('z', modulo={zero!r}) the "
                     f"circuit contains {left}")
        else:
            try:
                edzed.Counter('z', modulo=7, initdef=9)
            except Exception as err:
                res.fail('C20.modulo_zero_left_in_circuit', f"a valid Counter('z') after the refused one: {err!r}")
        harness.reset()

    harness.run_case(scenario)

    # ---- oracle
    it = iter(obs)
    reduced_once = False
    negative = False
    steps = 0
    try:
        first = next(it)
    except StopIteration:
        return res
    value = reduce(frac(case['restore']) if case['restore'] is not None else init, fmod)
    if first[1] != value:
        res.fail('C20.initial_value', f"got {first[1]!r}, expected {value}")
    for op in case['ops']:
        kind = op[0]
        o = next(it)
        ready = next(it)
        expect_exc = None
        if kind in ('inc', 'dec', 'inc_extra'):
            amount = Fraction(1) if op[1] is None else frac(op[1])
            raw = value + amount if kind != 'dec' else value - amount
        elif kind == 'x':
            items = x_items(op)
            if op[1] == 'put':
                raw = Fraction(items['value'])
            elif op[1] == 'reset':
                raw = init
            else:
                amount = Fraction(items['amount']) if 'amount' in items else Fraction(1)
                raw = value + amount if op[1] == 'inc' else value - amount
        elif kind == 'put':
            raw = frac(op[1])
        elif kind == 'reset':
            raw = init
        elif kind == 'putnoval':
            raw, expect_exc = None, 'TypeError'
        else:
            raw, expect_exc = None, 'EdzedUnknownEvent'
        if expect_exc is not None:
            if o[1] != 'exc' or o[2] != expect_exc:
                res.fail('C20.bad_event_not_reported', f"{kind}: observed {o!r}")
            if o[3] != value:
                res.fail('C20.bad_event_changed_counter', f"{kind}: {o[3]!r} != {value}")
        else:
            new = reduce(raw, fmod)
            steps += 1
            if new != raw:
                reduced_once = True
            if new < 0:
                negative = True
            if o[1] != 'ret':
                res.fail('C20.event_raised', f"{op}: {o!r}")
            else:
                if o[3] != new:
                    res.fail('C20.output', f"after {op}: output {o[3]!r}, expected {new}")
                if o[2] != new:
                    res.fail('C20.return_value', f"after {op}: returned {o[2]!r}, expected {new}")
                if fmod is not None and not 0 <= o[3] < fmod:
                    res.fail('C20.range', f"after {op}: output {o[3]!r} not in [0, {fmod})")
            value = new
        if ready[1] is not True:
            res.fail('C20.simulation_stopped', f"after {op}: {ready!r}")
    if case['restore'] is not None:
        stored = next(it)
        if stored[1] != value:
            res.fail('C20.persistent_value', f"stored {stored[1]!r}, expected {value}")
    res.nontrivial = steps >= 3 and (reduced_once or (fmod is None and negative))
    res.classes = [f"modulo={'None' if mod is None else num(mod)}"]
    if case['restore'] is not None:
        res.classes.append('restored')
    if reduced_once:
        res.classes.append('reduction happened')
    res.outcome = {'final': str(value), 'steps': steps}
    return res
