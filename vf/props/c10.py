"""C10 - a circuit that cannot settle is stopped with an error; one that settles is not.

Three generated classes:
  (i)   cyclic boolean networks (FuncBlocks not/id/xor/and/or) over 1-2 Inputs; brute force over
        all assignments decides whether a consistent state exists for each input vector;
  (ii)  feedback closed through an on_output event (CBlock -> 'put' to its own source) through a
        chain of identity blocks, inverting or not;
  (iii) acyclic DAGs with reconvergent fan-out whose number of source-to-block paths is within
        the documented margin (3 x number of blocks).
Oracle: no consistent state => 'instability' EdzedCircuitError; bounded number of evaluations per
burst in every case; idle => consistent; class (iii) never aborted.
"""
import itertools

from hypothesis import strategies as st

import edzed

from .. import harness
from ..runner import Result

ID = 'C10'
LEVEL = 'exploration'
BUDGET = {'quick': 4000, 'thorough': 20000}
MARGIN = 3      # documented: "propagates through the whole circuit several times"; simulator._MAX_EVALS_PER_BLOCK
RULE = ("Case = (i) cyclic network of 2-6 FuncBlocks from {not, id, xor, and, or} with >=1 cycle over 1-2 boolean "
        "Inputs and 1-3 bursts toggling the inputs, or (ii) a chain of 0-3 identity blocks ending in an "
        "(inverting or non-inverting) block whose on_output event puts its value back into the Input, or "
        "(iii) an acyclic DAG of 2-12 summing blocks with reconvergence whose total number of source-to-block "
        "paths is <= 3 x #blocks (edges pruned otherwise) driven by 4 bursts changing all sources, some of them "
        "up to 3 x #blocks + 2 times in a row before the simulator runs. "
        "Instrumented functions count evaluations per burst. Non-trivial = (i)/(ii): at least one phase without "
        "any consistent assignment (error required) or a phase where the cyclic network settled; "
        "(iii): path total > #blocks (some block reachable along several paths); distinct by descriptor.")
ASSUMPTIONS = [
    "where a consistent assignment exists for a cyclic network, both outcomes (settles / reported as "
    "unstable) are accepted - the property only forbids idling in an inconsistent state",
    "UNDEF inputs of not yet evaluated blocks are read as False by the generated functions",
    "an evaluation count above 50 x #blocks in one burst is reported as 'unbounded' (the instrumented "
    "function raises a BaseException to get the event loop back)",
]

UNDEF = edzed.UNDEF
KINDS = ['not', 'id', 'xor', 'and', 'or']


def evalk(kind, vals):
    v = [bool(x) for x in vals]
    if kind == 'not':
        return not v[0]
    if kind == 'id':
        return v[0]
    if kind == 'xor':
        return sum(v) % 2 == 1
    if kind == 'and':
        return all(v)
    return any(v)


class Unbounded(BaseException):
    pass


# ---------------------------------------------------------------- generators
@st.composite
def cyclic(draw):
    n = draw(st.integers(2, 6))
    nsrc = draw(st.integers(1, 2))
    names = [f's{i}' for i in range(nsrc)] + [f'c{i}' for i in range(n)]
    kinds = [draw(st.sampled_from(KINDS)) for _ in range(n)]
    ins = []
    for j, k in enumerate(kinds):
        cnt = 1 if k in ('not', 'id') else draw(st.integers(1, 3))
        ins.append([draw(st.sampled_from(names)) for _ in range(cnt)])
    # at least one cycle: c0 <- c(n-1), and mostly a ring
    ins[0][0] = f'c{n - 1}'
    for j in range(1, n):
        if draw(st.integers(0, 9)) < 7:
            ins[j][0] = f'c{j - 1}'
    init = [draw(st.booleans()) for _ in range(nsrc)]
    bursts = [[draw(st.booleans()) for _ in range(nsrc)] for _ in range(draw(st.integers(1, 3)))]
    return {'class': 'cyclic', 'kinds': kinds, 'ins': ins, 'init': init, 'bursts': bursts}


@st.composite
def event_feedback(draw):
    return {'class': 'event', 'chain': draw(st.integers(0, 3)), 'inverting': draw(st.booleans()),
            'init': draw(st.booleans()), 'bursts': draw(st.lists(st.booleans(), min_size=1, max_size=3))}


def path_total(nsrc, preds):
    """total number of (changed source ... block) paths, multi-edges counted once"""
    cnt = {}
    total = 0
    for j, ps in enumerate(preds):
        c = 1 if any(p < nsrc for p in set(ps)) else 0
        for p in set(ps):
            if p >= nsrc:
                c += cnt[p - nsrc]
        cnt[j] = c
        total += c
    return total


@st.composite
def dag(draw):
    nsrc = draw(st.integers(1, 2))
    n = draw(st.integers(2, 12))
    preds = []
    for j in range(n):
        k = draw(st.integers(1, 3))
        recent = list(range(max(0, nsrc + j - 3), nsrc + j))
        preds.append([draw(st.sampled_from(recent)) if draw(st.booleans())
                      else draw(st.integers(0, nsrc + j - 1)) for _ in range(k)])
    nblocks = nsrc + n
    # prune edges (from the deepest block upwards) until the documented bound holds
    j = n - 1
    while path_total(nsrc, preds) > MARGIN * nblocks:
        if len(set(preds[j])) > 1:
            preds[j] = sorted(set(preds[j]))[:-1]
        else:
            j -= 1
            if j < 0:
                j = n - 1
                preds[j] = [0]
    order = draw(st.permutations(list(range(n))))
    values = [[draw(st.integers(0, 50)) for _ in range(nsrc)] for _ in range(4)]
    # some bursts change the sources many times before the simulator gets to run
    repeats = [draw(st.sampled_from([1, 1, 2, 3 * nblocks + 2, 25])) for _ in range(4)]
    return {'class': 'dag', 'nsrc': nsrc, 'preds': preds, 'order': list(order), 'values': values,
            'repeats': repeats,
            # the sources also send an output event that its destination refuses for odd values
            # (EdzedUnknownEvent: reported to the caller, the simulation goes on)
            'picky': draw(st.booleans()),
            # a block fed by constants only (evaluated once, at the start) and a consumer of it
            'konst': draw(st.booleans())}


def strategy(tier):
    base = st.one_of(cyclic(), cyclic(), event_feedback(), dag(), dag())
    # in a third of the cases the sources also have an on_every_output event (to a bystander)
    return st.tuples(base, st.integers(0, 2)).map(lambda t: {**t[0], 'every': t[1] == 0})


# ---------------------------------------------------------------- executor
def consistent_exists(case, vec):
    n = len(case['kinds'])
    env0 = {f's{i}': v for i, v in enumerate(vec)}
    for assign in itertools.product([False, True], repeat=n):
        env = dict(env0)
        env.update({f'c{i}': assign[i] for i in range(n)})
        if all(evalk(case['kinds'][j], [env[x] for x in case['ins'][j]]) == assign[j] for j in range(n)):
            return True
    return False


def execute(case):
    res = Result()
    calls = [0]
    limit = [10 ** 9]
    obs = {'phases': []}

    def counted(f):
        def wrapper(*args, **kwargs):
            calls[0] += 1
            if calls[0] > limit[0]:
                obs['unbounded'] = calls[0]
                raise Unbounded()
            return f(*args, **kwargs)
        return wrapper

    async def scenario(loop):
        harness.reset()
        circuit = edzed.get_circuit()
        cls = case['class']
        ekw = {}
        if case.get('every'):
            harness.Recorder('watch', x_log=[])
            ekw['on_every_output'] = edzed.Event('watch', 'note')
        if cls == 'cyclic':
            srcs = [edzed.Input(f's{i}', initdef=v, **ekw) for i, v in enumerate(case['init'])]
            for j, k in enumerate(case['kinds']):
                edzed.FuncBlock(f'c{j}', func=counted(lambda args, k=k: evalk(k, args)),
                                unpack=False).connect(*case['ins'][j])
        elif cls == 'event':
            srcs = [edzed.Input('s0', initdef=case['init'], **ekw)]
            prev = 's0'
            for k in range(case['chain']):
                edzed.FuncBlock(f'p{k}', func=counted(lambda x: x)).connect(prev)
                prev = f'p{k}'
            inv = case['inverting']
            edzed.FuncBlock('n', func=counted(lambda x: (not x) if inv else bool(x)),
                            on_output=edzed.Event('s0', 'put')).connect(prev)
        else:
            nsrc = case['nsrc']
            kw = {}
            if case.get('picky'):
                class Picky(edzed.SBlock):
                    def init_regular(self):
                        self.set_output(0)

                    def _event(self, etype, data):
                        if data.get('value', 0) % 2:
                            raise edzed.EdzedUnknownEvent(f"{self}: Unknown event type {etype!r}")
                Picky('picky')
                kw['on_output'] = edzed.Event('picky', 'take')
            srcs = [edzed.Input(f's{i}', initdef=0, **kw, **ekw) for i in range(nsrc)]
            names = [f's{i}' for i in range(nsrc)] + [f'c{j}' for j in range(len(case['preds']))]
            for j in case['order']:
                edzed.FuncBlock(f'c{j}', func=counted(lambda args: sum(args)), unpack=False).connect(
                    *[names[p] for p in case['preds'][j]])
            if case.get('konst'):
                edzed.FuncBlock('kc', func=counted(lambda args: sum(args)), unpack=False).connect('k0', 's0')
                edzed.FuncBlock('k0', func=counted(lambda args: sum(args)), unpack=False).connect(3, edzed.Const(4))
        nblocks = len(list(circuit.getblocks()))
        obs['nblocks'] = nblocks
        limit[0] = 50 * nblocks

        def snapshot(tag, vec):
            err = circuit.error
            obs['phases'].append({
                'tag': tag, 'vec': vec, 'calls': calls[0],
                'error': None if err is None else [type(err).__name__, str(err)],
                'outputs': {b.name: (None if b.output is UNDEF else b.output) for b in circuit.getblocks()}})
            calls[0] = 0
        sim = harness.Running()
        await sim.__aenter__()
        await harness.quiesce(loop)
        snapshot('init', case['init'] if cls != 'dag' else [0] * case['nsrc'])
        bursts = case['bursts'] if cls != 'dag' else case['values']
        for k, burst in enumerate(bursts):
            if circuit.error is not None or not circuit.is_ready():
                break
            vec = burst if isinstance(burst, list) else [burst]
            reps = case['repeats'][k] if cls == 'dag' and 'repeats' in case else 1
            for r in range(reps - 1, -1, -1):
                # 'reps' successive changes of every source without yielding; the last one is 'vec'
                for s, v in zip(srcs, vec):
                    try:
                        edzed.ExtEvent(s).send(v + 1000 * r if cls == 'dag' else v)
                    except edzed.EdzedUnknownEvent:
                        obs['refused'] = obs.get('refused', 0) + 1
            await harness.quiesce(loop)
            snapshot(f'burst {k}', vec)
        await sim.stop()

    harness.run_case(scenario)
    nblocks = obs['nblocks']
    cls = case['class']
    if 'unbounded' in obs:
        res.fail('C10.unbounded', f"more than {50 * nblocks} evaluations in one burst without an "
                 "instability error (the simulator never gave the event loop back)")
        return res
    settled = required = False
    for ph in obs['phases']:
        tag = ph['tag']
        err = ph['error']
        if ph['calls'] > MARGIN * nblocks + nblocks:
            res.fail('C10.too_many_evaluations', f"{tag}: {ph['calls']} evaluations, {nblocks} blocks")
        if err is not None and not (err[0] == 'EdzedCircuitError' and 'nstab' in err[1]):
            res.fail('C10.other_error', f"{tag}: {err}")
            break
        out = ph['outputs']
        if cls == 'cyclic':
            possible = consistent_exists(case, ph['vec'])
            if not possible:
                required = True
                if err is None:
                    res.fail('C10.undetected', f"{tag}: inputs {ph['vec']} admit no consistent state but the "
                             f"simulator went idle with {out}")
            if err is None:
                settled = True
                bad = [f'c{j}' for j, k in enumerate(case['kinds'])
                       if evalk(k, [out[x] for x in case['ins'][j]]) != out[f'c{j}'] or out[f'c{j}'] is None]
                if bad:
                    res.fail('C10.idle_inconsistent', f"{tag}: idle but {bad} disagree with their inputs: {out}")
        elif cls == 'event':
            if case['inverting']:
                required = True
                if err is None:
                    res.fail('C10.undetected', f"{tag}: inverting feedback loop went idle: {out}")
            elif err is None:
                settled = True
                if bool(out['n']) != bool(out['s0']) or any(
                        bool(out[f'p{k}']) != bool(out['s0']) for k in range(case['chain'])):
                    res.fail('C10.idle_inconsistent', f"{tag}: {out}")
        else:
            if err is not None:
                res.fail('C10.false_instability', f"{tag}: acyclic network within the path margin "
                         f"(paths {path_total(case['nsrc'], case['preds'])}, blocks {nblocks}) aborted: {err[1]}")
            else:
                names = [f's{i}' for i in range(case['nsrc'])] + [f'c{j}' for j in range(len(case['preds']))]
                if case.get('konst') and (out['k0'] != 7 or out['kc'] != 7 + out['s0']):
                    res.fail('C10.idle_inconsistent', f"{tag}: k0 = sum(3, 4) outputs {out['k0']}, "
                             f"kc = sum(k0, s0) outputs {out['kc']} with s0 = {out['s0']}")
                for j, ps in enumerate(case['preds']):
                    if out[f'c{j}'] != sum(out[names[p]] for p in ps):
                        res.fail('C10.idle_inconsistent', f"{tag}: c{j} = {out[f'c{j}']} but its inputs sum to "
                                 f"{sum(out[names[p]] for p in ps)}")
                        break
        if err is not None:
            break
    if cls == 'dag':
        total = path_total(case['nsrc'], case['preds'])
        res.nontrivial = total > len(case['preds'])
        res.classes = ['acyclic within margin', f"paths/blocks {min(3, total // nblocks)}.x"]
        if any(r > 2 for r in case.get('repeats', [])):
            res.classes.append('burst with many changes of one source')
        if obs.get('refused'):
            res.classes.append("source's output event refused by its destination (non-fatal)")
    else:
        res.nontrivial = required or settled
        res.classes = ['cyclic network' if cls == 'cyclic' else 'event feedback']
        if required:
            res.classes.append('no consistent state in some phase (error required)')
        if settled:
            res.classes.append('loop settled in some phase')
    res.outcome = {'phases': [(p['tag'], p['calls'], p['error'] and p['error'][0]) for p in obs['phases']]}
    return res
