"""C16 - event filters form an ordered pipeline that can edit or veto an event;
bundled filters implement their documented predicates."""
import copy
import itertools

import collections

from hypothesis import strategies as st

import edzed

from .. import harness
from ..runner import Result

ID = 'C16'
LEVEL = 'exploration'
BUDGET = {"quick": 8000, "thorough": 20000}
RULE = ("Case kinds: (pipe) pipeline of 0..3 generated filters (new mapping - dict, UserDict or ChainMap -, a bundled DataEdit step, empty mapping, "
        "in-place edit returning true / the same dict, truthy or falsy non-mapping, non-string "
        "key) on 1..3 sends, executed through Event.send in a running circuit, model = fold; "
        "(edge) complete truth table of Edge: 8 (rise,fall,u_fall) combinations x u_rise in {None,True,False} "
        "x all (previous,value) pairs over {UNDEF,0,'',None,False,1,'x',True}; (nfu) "
        "not_from_undef; (delta) numeric sequences on a 1/8 grid vs 'last passed value' model; "
        "(ctrl) IfOutput / NotIfInitialized / DataEdit.add_output by name, by object and via "
        "'_not_NAME', before start (UNDEF) and while running; (dedit) chains of <=4 DataEdit "
        "operations over keys a,b,c on all input dicts, class-method and instance chaining, "
        "direct call and through an Event. Thorough enumerates all chains of <=4 operations "
        "from a 16-operation alphabet x 8 input dicts. Non-trivial = pipeline with >=2 filters "
        "of which one edits and one passes/rejects; delta sequence with a rejected and a later "
        "accepted value; dedit chain of >=2 ops; every edge-table row; distinct by descriptor.")
ASSUMPTIONS = [
    "DataEdit.rename(k, k) is not generated (undocumented degenerate case)",
    "Delta values/deltas on a 1/8 grid so that float subtraction is exact",
]

UNDEF = edzed.UNDEF
POOL = ['UNDEF', 0, '', None, False, 1, 'x', True]


def val(x):
    return UNDEF if x == 'UNDEF' else x


# ---------------------------------------------------------------- strategies
FKINDS = ['new_add', 'new_del', 'inplace_true', 'inplace_same', 'pass', 'reject', 'empty', 'nonstr',
          'new_userdict', 'new_chainmap', 'dataedit']
PASS_VALUES = [True, 1, 'yes', [0]]
REJECT_VALUES = [False, None, 0, '', []]

filt = st.one_of(
    st.sampled_from(['new_add', 'new_del', 'inplace_true', 'inplace_same', 'empty']).map(lambda k: [k, 0]),
    st.integers(0, len(PASS_VALUES) - 1).map(lambda i: ['pass', i]),
    st.integers(0, len(REJECT_VALUES) - 1).map(lambda i: ['reject', i]),
    st.just(['nonstr', 0]),
    st.sampled_from(['new_add', 'inplace_true', 'pass']).map(lambda k: [k, 0]),
    # mutable mappings that are not dicts (the documentation says 'precisely a MutableMapping'),
    # and a bundled DataEdit step that may receive one
    st.sampled_from(['new_userdict', 'new_chainmap', 'dataedit', 'dataedit']).map(lambda k: [k, 0]),
)
send_data = st.dictionaries(st.sampled_from(['x', 'y', 'value']), st.integers(0, 3), max_size=3)
pipe_cases = st.builds(
    lambda fl, sends, single: {'k': 'pipe', 'filters': fl, 'sends': sends, 'single': single},
    st.lists(filt, max_size=3), st.lists(send_data, min_size=1, max_size=3), st.booleans())

edge_cases = st.builds(
    lambda r, f, ur, uf, p, v: {'k': 'edge', 'rise': r, 'fall': f, 'u_rise': ur, 'u_fall': uf,
                                'previous': p, 'value': v},
    st.booleans(), st.booleans(), st.sampled_from([None, True, False]), st.booleans(),
    st.sampled_from(POOL), st.sampled_from(POOL[1:]))

eighths = st.integers(-80, 80)
delta_cases = st.builds(
    lambda d, seq, isint: {'k': 'delta', 'delta8': d, 'seq8': seq, 'int': isint},
    st.integers(0, 40), st.lists(eighths, min_size=1, max_size=12), st.booleans())

# conditional event type + filters that edit the 'value' item: the branch is chosen from the data
# that left the filters (the destination evaluates the condition)
VEDITS = ['none', 'set_true', 'set_false', 'delete', 'negate', 'reject_falsy']
cond_cases = st.builds(
    lambda tf, vals, edits: {'k': 'cond', 'etrue': tf[0], 'efalse': tf[1], 'values': vals, 'edits': edits},
    st.sampled_from([['t', 'f'], ['t', None], [None, 'f'], ['t', 't']]),
    st.lists(st.sampled_from([0, 1, '', 'x', None, 'ABSENT']), min_size=1, max_size=4),
    st.lists(st.sampled_from(VEDITS), max_size=2))

# a chain of add_output steps (two source blocks, two keys - also the same key twice) mixed with
# rename / copy / delete: equivalent to the dictionary operations applied left to right
AO_STEP = st.one_of(
    st.tuples(st.just('ao'), st.sampled_from(['t', 'u']), st.sampled_from(['ctrl', 'other'])).map(list),
    st.tuples(st.just('ao'), st.sampled_from(['t', 'u']), st.sampled_from(['ctrl', 'other'])).map(list),
    st.tuples(st.sampled_from(['rename', 'copy']), st.sampled_from(['t', 'u']), st.sampled_from(['u', 'v', 't'])).map(list),
    st.tuples(st.just('delete'), st.sampled_from(['t', 'u', 'v'])).map(list))
ctrl_cases = st.builds(
    lambda init, puts, how, chain: {'k': 'ctrl', 'init': init, 'puts': puts, 'how': how, 'ao_chain': chain},
    st.sampled_from([0, 1, '', 'on', None, 2.5, False, True, {}, {'k': 0}, []]),
    st.lists(st.sampled_from([0, 1, '', 'on', None, False, True, 7, {}, {'k': 0}, [], [0]]), max_size=4),
    st.sampled_from(['name', 'object']),
    st.lists(AO_STEP, min_size=1, max_size=5))

OPS = [
    ['add', {'a': 1}], ['add', {'b': 2}], ['add', {'a': 5, 'c': 6}], ['setdefault', {'a': 9}],
    ['setdefault', {'c': 7, 'b': 8}], ['copy', 'a', 'b'], ['copy', 'b', 'c'], ['rename', 'a', 'c'],
    ['rename', 'b', 'a'], ['delete', ['a']], ['delete', ['b', 'c']], ['delete', []],
    ['permit', ['a']], ['permit', ['a', 'b']], ['permit', []], ['modify', 'a', 'inc'],
    ['modify', 'b', 'delete'], ['modify', 'a', 'reject_odd'], ['modify', 'c', 'const'],
    ['copy', 'c', 'c'],
]
EXH_OPS = OPS[:2] + OPS[3:4] + OPS[4:11] + OPS[12:18]      # 16 operations
INPUTS = [dict(zip(ks, vs)) for n in range(4) for ks in itertools.combinations('abc', n)
          for vs in [tuple(range(10, 10 + n))]]
dedit_cases = st.builds(
    lambda ops, inp, how, via: {'k': 'dedit', 'ops': ops, 'input': inp, 'start': how, 'via_event': via},
    st.lists(st.integers(0, len(OPS) - 1), min_size=1, max_size=4),
    st.dictionaries(st.sampled_from('abc'), st.integers(0, 5), max_size=3),
    st.sampled_from(['class', 'instance']), st.booleans())

nfu_cases = st.builds(
    lambda p, with_prev: {'k': 'nfu', 'previous': p, 'with_prev': with_prev},
    st.sampled_from(POOL), st.booleans())


def strategy(tier):
    return st.one_of(pipe_cases, pipe_cases, edge_cases, delta_cases, ctrl_cases, dedit_cases,
                     dedit_cases, nfu_cases, cond_cases)


def exhaustive(tier):
    if tier != 'thorough':
        return None

    def gen():
        yield {'k': 'edge_table'}
        nops = len(EXH_OPS)
        idx = [OPS.index(o) for o in EXH_OPS]
        for n in range(1, 5):
            for chain in itertools.product(idx, repeat=n):
                yield {'k': 'dedit_all_inputs', 'ops': list(chain)}
    return ("Edge: all 48 flag combinations x 64 (previous,value) pairs; DataEdit: all chains of "
            "1..4 operations from a 16-operation alphabet over keys a,b,c x all 8 key-presence "
            "input dicts (69 904 chains x 8 inputs)", gen())


# ---------------------------------------------------------------- models
def edge_model(rise, fall, u_rise, u_fall, previous, value):
    if u_rise is None:
        u_rise = rise
    if previous is UNDEF:
        return bool(u_rise) if value else bool(u_fall)
    if value and not previous:
        return bool(rise)
    if previous and not value:
        return bool(fall)
    return False


MODIFY = {
    'inc': lambda v: v + 1,
    'delete': lambda v: edzed.DataEdit.DELETE,
    'reject_odd': lambda v: edzed.DataEdit.REJECT if v % 2 else v * 10,
    'const': lambda v: 'K',
}


def dedit_model(ops, data):
    """-> ('ok', dict) | ('reject',) | ('KeyError',)"""
    data = dict(data)
    for i in ops:
        op = OPS[i]
        name = op[0]
        if name == 'add':
            data.update(op[1])
        elif name == 'setdefault':
            for k, v in op[1].items():
                if k not in data:
                    data[k] = v
        elif name == 'copy':
            if op[1] not in data:
                return ('KeyError',)
            data[op[2]] = data[op[1]]
        elif name == 'rename':
            if op[1] not in data:
                return ('KeyError',)
            data[op[2]] = data.pop(op[1])
        elif name == 'delete':
            for k in op[1]:
                data.pop(k, None)
        elif name == 'permit':
            data = {k: v for k, v in data.items() if k in op[1]}
        elif name == 'modify':
            if op[1] not in data:
                return ('KeyError',)
            cur = data[op[1]]
            kind = op[2]
            if kind == 'inc':
                data[op[1]] = cur + 1
            elif kind == 'delete':
                del data[op[1]]
            elif kind == 'reject_odd':
                if cur % 2:
                    return ('reject',)
                data[op[1]] = cur * 10
            else:
                data[op[1]] = 'K'
    return ('ok', data)


def dedit_build(ops, start):
    flt = edzed.DataEdit() if start == 'instance' else edzed.DataEdit
    for i in ops:
        op = OPS[i]
        name = op[0]
        meth = getattr(flt, name)
        if name in ('add', 'setdefault'):
            flt = meth(**op[1])
        elif name in ('copy', 'rename'):
            flt = meth(op[1], op[2])
        elif name in ('delete', 'permit'):
            flt = meth(*op[1])
        else:
            flt = meth(op[1], MODIFY[op[2]])
    return flt


def dedit_real(flt, data):
    try:
        out = flt(dict(data))
    except KeyError:
        return ('KeyError',)
    if out is None:
        return ('reject',)
    if isinstance(out, dict):
        return ('ok', dict(out))
    return ('other', repr(out))


# ---------------------------------------------------------------- executors
def exec_pipe(case, res):
    seen = []
    log = []

    def make(i, spec):
        kind, idx = spec

        def f(data):
            seen.append((i, dict(data)))
            if kind == 'new_add':
                return {**data, f'k{i}': i}
            if kind == 'new_del':
                return {k: v for k, v in data.items() if k != 'x'}
            if kind == 'inplace_true':
                data[f'm{i}'] = i
                return True
            if kind == 'inplace_same':
                data[f'm{i}'] = i
                return data
            if kind == 'pass':
                return PASS_VALUES[idx]
            if kind == 'reject':
                return REJECT_VALUES[idx]
            if kind == 'empty':
                return {}
            if kind == 'nonstr':
                return {**data, 1: 'one'}
            if kind == 'new_userdict':
                return collections.UserDict({**data, f'k{i}': i})
            if kind == 'new_chainmap':
                return collections.ChainMap({f'k{i}': i}, dict(data))
            if kind == 'dataedit':
                return edzed.DataEdit.add(**{f'd{i}': i}).setdefault(x=7).copy('x', f'c{i}')(data)
            raise AssertionError(kind)
        f.__name__ = f'f{i}_{kind}'
        return f

    filters = [make(i, spec) for i, spec in enumerate(case['filters'])]
    results = []

    async def scenario(loop):
        harness.reset()
        rec = harness.Recorder('rec', x_log=log)
        src = harness.Src('src', x_init=0)
        if case['single'] and len(filters) == 1:
            ev = edzed.Event(rec, 'go', efilter=filters[0])
        elif not filters and case['single']:
            ev = edzed.Event(rec, 'go')
        else:
            ev = edzed.Event('rec', 'go', efilter=filters)
        async with harness.Running() as sim:
            if sim.init_error is not None:
                raise harness.vloop.HarnessError(f"init failed: {sim.init_error!r}")
            for data in case['sends']:
                nseen, nlog = len(seen), len(log)
                try:
                    r = ev.send(src, **data)
                except Exception as err:
                    r = ('EXC', type(err).__name__)
                results.append((r, seen[nseen:], [e['data'] for e in log[nlog:]],
                                sim.circuit.is_ready()))
                await harness.quiesce(loop)

    harness.run_case(scenario)

    for data, (r, fseen, delivered, ready) in zip(case['sends'], results):
        cur = {**data, 'source': 'src'}
        exp_seen = []
        outcome = True
        for i, (kind, idx) in enumerate(case['filters']):
            exp_seen.append((i, dict(cur)))
            if kind in ('new_add', 'new_userdict', 'new_chainmap'):
                cur = {**cur, f'k{i}': i}
            elif kind == 'dataedit':
                cur = {**cur, f'd{i}': i}
                cur.setdefault('x', 7)
                cur[f'c{i}'] = cur['x']
            elif kind == 'new_del':
                cur = {k: v for k, v in cur.items() if k != 'x'}
            elif kind in ('inplace_true', 'inplace_same'):
                cur[f'm{i}'] = i
            elif kind == 'pass':
                pass
            elif kind == 'reject':
                outcome = False
                break
            elif kind == 'empty':
                cur = {}
            elif kind == 'nonstr':
                outcome = ('EXC', 'TypeError')
                break
        if fseen != exp_seen:
            res.fail('C16.filter_inputs', f"filters saw {fseen}, expected {exp_seen}")
        if r != outcome:
            res.fail('C16.send_result', f"send() -> {r!r}, expected {outcome!r} ({case['filters']})")
        exp_deliv = [cur] if outcome is True else []
        if delivered != exp_deliv:
            res.fail('C16.delivered_data', f"destination got {delivered}, expected {exp_deliv}")
        if not ready:
            res.fail('C16.simulation_stopped', 'circuit not ready after send')
    kinds = [k for k, _ in case['filters']]
    edits = any(k in ('new_add', 'new_del', 'inplace_true', 'inplace_same', 'empty', 'new_userdict', 'new_chainmap', 'dataedit') for k in kinds)
    res.nontrivial = len(kinds) >= 2 and edits and any(k in ('pass', 'reject', 'nonstr') for k in kinds)
    res.classes = ['pipe', f'pipe/len{len(kinds)}'] + (['pipe/with reject'] if 'reject' in kinds else [])
    res.outcome = {'results': [repr(r[0]) for r in results]}


def edge_check(res, rise, fall, u_rise, u_fall, previous, value):
    kwargs = {}
    if rise:
        kwargs['rise'] = True
    if fall:
        kwargs['fall'] = True
    if u_rise is not None:
        kwargs['u_rise'] = u_rise
    if u_fall:
        kwargs['u_fall'] = True
    flt = edzed.Edge(**kwargs)
    got = flt({'previous': previous, 'value': value, 'source': 's', 'trigger': 'output'})
    want = edge_model(rise, fall, u_rise, u_fall, previous, value)
    if bool(got) != want or isinstance(got, dict):
        res.fail('C16.edge', f"Edge({kwargs})(previous={previous!r}, value={value!r}) -> {got!r}, expected {want}")


def ao_chain_model(chain, start, outputs):
    """the equivalent dictionary operations, left to right"""
    d = dict(start)
    for step in chain:
        if step[0] == 'ao':
            d[step[1]] = outputs[step[2]]
        elif step[0] == 'copy' or (step[0] == 'rename' and step[1] == step[2]):
            if step[1] not in d:
                return ['KeyError', repr(step[1])]
            d[step[2]] = d[step[1]]
        elif step[0] == 'rename':
            if step[1] not in d:
                return ['KeyError', repr(step[1])]
            d[step[2]] = d.pop(step[1])
        else:
            d.pop(step[1], None)
    return d


def exec_ctrl(case, res):
    init = case['init']
    log = []
    obs = []
    obs_chain = []

    async def scenario(loop):
        harness.reset()
        rec = harness.Recorder('rec', x_log=log)
        ctrl = edzed.Input('ctrl', initdef=init)
        src = harness.Src('src', x_init=0)
        ref = 'ctrl' if case['how'] == 'name' else ctrl
        if not hasattr(edzed, 'NotIfInitialized'):
            res.fail('C16.notifinitialized_missing', 'edzed.NotIfInitialized does not exist')
            return
        f_if = edzed.IfOutput(ref)
        f_ifnot = edzed.IfOutput('_not_ctrl')
        f_nii = edzed.NotIfInitialized(ref)
        f_ao = edzed.DataEdit.add_output('o', ref).add(z=1)
        other = edzed.Input('other', initdef='other-output')
        f_chain = None
        for step in case.get('ao_chain', []):
            base = edzed.DataEdit if f_chain is None else f_chain
            if step[0] == 'ao':
                blk = {'ctrl': ref, 'other': 'other' if case['how'] == 'name' else other}[step[2]]
                f_chain = base.add_output(step[1], blk)
            elif step[0] == 'rename':
                f_chain = base.rename(step[1], step[2]) if step[1] != step[2] else base.copy(step[1], step[2])
            elif step[0] == 'copy':
                f_chain = base.copy(step[1], step[2])
            else:
                f_chain = base.delete(step[1])
        ev_if = edzed.Event(rec, 'if', efilter=f_if)
        ev_ifnot = edzed.Event(rec, 'ifnot', efilter=f_ifnot)
        ev_nii = edzed.Event(rec, 'nii', efilter=[f_nii])
        ev_ao = edzed.Event(rec, 'ao', efilter=(f_ao,))
        circuit = edzed.get_circuit()
        circuit.finalize()
        data = {'value': 5}
        # before the start: everything is UNDEF
        obs.append(('pre', f_if(dict(data)), f_nii(dict(data)), f_ao(dict(data))))
        async with harness.Running() as sim:
            if sim.init_error is not None:
                raise harness.vloop.HarnessError(f"init failed: {sim.init_error!r}")
            for i, v in enumerate([init] + case['puts']):
                if i > 0:
                    edzed.ExtEvent(ctrl).send(v)
                await harness.quiesce(loop)
                cur = ctrl.output
                n = len(log)
                r = [ev.send(src, value=5) for ev in (ev_if, ev_ifnot, ev_nii, ev_ao)]
                obs.append(('run', cur, r, [(e['etype'], e['data']) for e in log[n:]]))
                if f_chain is not None:
                    start = {'t': 'T0', 'value': 5}
                    try:
                        got = f_chain(dict(start))
                    except KeyError as err:
                        got = ['KeyError', str(err)]
                    obs_chain.append((cur, got))

    harness.run_case(scenario)
    if not obs:
        return
    for cur, got in obs_chain:
        want = ao_chain_model(case['ao_chain'], {'t': 'T0', 'value': 5}, {'ctrl': cur, 'other': 'other-output'})
        if got != want:
            res.fail('C16.add_output_chain', f"{case['ao_chain']} with ctrl output {cur!r}: {got!r}, "
                     f"the dictionary operations give {want!r}")
            break
    pre = obs[0]
    # a filter vetoes by any false result that is not a mapping (Event.send semantics)
    if isinstance(pre[1], dict) or pre[1]:
        res.fail('C16.ifoutput', f"IfOutput with UNDEF control output passed: {pre[1]!r}")
    if not isinstance(pre[2], dict) or pre[2] != {'value': 5}:
        res.fail('C16.notifinitialized', f"NotIfInitialized with uninitialised control block -> {pre[2]!r}")
    if pre[3] != {'value': 5, 'o': UNDEF, 'z': 1}:
        res.fail('C16.add_output', f"add_output before start -> {pre[3]!r}")
    values = [init] + case['puts']
    for (tag, cur, r, delivered), v in zip(obs[1:], values):
        if cur != v:
            raise harness.vloop.HarnessError(f"control output {cur!r} != {v!r}")
        exp_r = [bool(v), not v, False, True]
        if r != exp_r:
            res.fail('C16.ctrl_send_result', f"ctrl output {v!r}: send results {r}, expected {exp_r}")
        exp = []
        if v:
            exp.append(('if', {'value': 5, 'source': 'src'}))
        else:
            exp.append(('ifnot', {'value': 5, 'source': 'src'}))
        exp.append(('ao', {'value': 5, 'source': 'src', 'o': v, 'z': 1}))
        if delivered != exp:
            res.fail('C16.ctrl_delivery', f"ctrl output {v!r}: delivered {delivered}, expected {exp}")
    res.nontrivial = any(bool(a) != bool(b) for a, b in zip(values, values[1:]))
    res.classes = ['ctrl', 'ctrl/' + case['how']]


def exec_cond(case, res):
    log = []
    results = []

    def mk(edit):
        if edit == 'set_true':
            return edzed.DataEdit.add(value='yes')
        if edit == 'set_false':
            return edzed.DataEdit.add(value=0)
        if edit == 'delete':
            return edzed.DataEdit.delete('value')
        if edit == 'negate':
            return lambda data: {**data, 'value': not data.get('value')}
        if edit == 'reject_falsy':
            return lambda data: bool(data.get('value'))
        return lambda data: True

    async def scenario(loop):
        harness.reset()
        rec = harness.Recorder('rec', x_log=log)
        src = harness.Src('src', x_init=0)
        ev = edzed.Event(rec, edzed.EventCond(case['etrue'], case['efalse']),
                         efilter=[mk(e) for e in case['edits']])
        async with harness.Running() as sim:
            if sim.init_error is not None:
                raise harness.vloop.HarnessError(f"init failed: {sim.init_error!r}")
            for v in case['values']:
                n = len(log)
                r = ev.send(src, **({} if v == 'ABSENT' else {'value': v}))
                results.append((r, [(e['etype'], e['data']) for e in log[n:]]))

    harness.run_case(scenario)
    flipped = False
    for v, (r, delivered) in zip(case['values'], results):
        data = {'source': 'src'}
        if v != 'ABSENT':
            data['value'] = v
        rejected = False
        for e in case['edits']:
            if e == 'set_true':
                data['value'] = 'yes'
            elif e == 'set_false':
                data['value'] = 0
            elif e == 'delete':
                data.pop('value', None)
            elif e == 'negate':
                data['value'] = not data.get('value')
            elif e == 'reject_falsy' and not data.get('value'):
                rejected = True
                break
        if rejected:
            want_r, want = False, []
        else:
            etype = case['etrue'] if data.get('value') else case['efalse']
            want_r, want = True, ([] if etype is None else [(etype, data)])
            if bool(data.get('value')) != bool(None if v == 'ABSENT' else v):
                flipped = True
        if r is not want_r or delivered != want:
            res.fail('C16.conditional_event', f"EventCond({case['etrue']!r}, {case['efalse']!r}) with filters "
                     f"{case['edits']}, value {v!r}: send() -> {r!r}, delivered {delivered}, expected {want}")
            break
    res.nontrivial = flipped
    res.classes = ['cond'] + (['cond/filter changes the truth of value'] if flipped else [])


def exec_dedit(case, res):
    ops = case['ops']
    want = dedit_model(ops, case['input'])
    flt = dedit_build(ops, case['start'])
    got = dedit_real(flt, case['input'])
    if got != want:
        res.fail('C16.dataedit', f"{[OPS[i] for i in ops]} on {case['input']}: {got}, expected {want}")
    # the same filter object again (no state may leak between calls)
    got2 = dedit_real(flt, case['input'])
    if got2 != want:
        res.fail('C16.dataedit_second_call', f"{[OPS[i] for i in ops]} on {case['input']}: {got2}, expected {want}")
    if case['via_event'] and want[0] != 'KeyError':
        log = []
        out = []

        async def scenario(loop):
            harness.reset()
            rec = harness.Recorder('rec', x_log=log)
            src = harness.Src('src', x_init=0)
            ev = edzed.Event(rec, 'go', efilter=dedit_build(ops, case['start']))
            async with harness.Running() as sim:
                if sim.init_error is not None:
                    raise harness.vloop.HarnessError(f"init failed: {sim.init_error!r}")
                out.append(ev.send(src, **case['input']))
        harness.run_case(scenario)
        want_ev = dedit_model(ops, {**case['input'], 'source': 'src'})
        if want_ev[0] == 'ok':
            if out != [True] or [e['data'] for e in log] != [want_ev[1]]:
                res.fail('C16.dataedit_via_event', f"{[OPS[i] for i in ops]} on {case['input']}: "
                         f"send {out}, delivered {[e['data'] for e in log]}, expected {want_ev[1]}")
        elif want_ev[0] == 'reject':
            if out != [False] or log:
                res.fail('C16.dataedit_via_event', f"reject expected, send {out}, delivered {log}")
    res.nontrivial = len(ops) >= 2
    res.classes = ['dedit', 'dedit/' + want[0]]
    res.outcome = {'ops': [OPS[i] for i in ops], 'result': list(want)}


def execute(case):
    res = Result()
    k = case['k']
    if k == 'pipe':
        exec_pipe(case, res)
    elif k == 'edge':
        edge_check(res, case['rise'], case['fall'], case['u_rise'], case['u_fall'],
                   val(case['previous']), val(case['value']))
        res.nontrivial = True
        res.classes = ['edge']
    elif k == 'edge_table':
        n = 0
        for rise, fall, u_fall in itertools.product([False, True], repeat=3):
            for u_rise in (None, True, False):
                for p in POOL:
                    for v in POOL:
                        edge_check(res, rise, fall, u_rise, u_fall, val(p), val(v))
                        n += 1
        res.evals = n
        res.nt_count = n
        res.classes = ['edge_table']
    elif k == 'nfu':
        data = {'value': 1, 'source': 's'}
        if case['with_prev']:
            data['previous'] = val(case['previous'])
            want = data['previous'] is not UNDEF
            got = edzed.not_from_undef(data)
            if bool(got) != want or isinstance(got, dict):
                res.fail('C16.not_from_undef', f"not_from_undef({data}) -> {got!r}")
        res.nontrivial = case['with_prev']
        res.classes = ['nfu']
    elif k == 'delta':
        conv = (lambda q: q // 8) if case['int'] else (lambda q: q / 8)
        delta = conv(case['delta8']) if not case['int'] else case['delta8'] // 8
        flt = edzed.Delta(delta)
        last = None
        pattern = []
        for q in case['seq8']:
            v = conv(q)
            want = last is None or abs(last - v) >= delta
            got = flt({'value': v, 'previous': 0, 'source': 's'})
            if bool(got) != want or isinstance(got, dict):
                res.fail('C16.delta', f"Delta({delta}) seq {[conv(x) for x in case['seq8']]}: "
                         f"value {v} -> {got!r}, expected {want} (last passed {last})")
                break
            if want:
                last = v
            pattern.append(want)
        res.nontrivial = False in pattern and True in pattern[pattern.index(False):]
        res.classes = ['delta']
        res.outcome = {'delta': delta, 'passed': pattern}
    elif k == 'ctrl':
        exec_ctrl(case, res)
    elif k == 'cond':
        exec_cond(case, res)
    elif k == 'dedit':
        exec_dedit(case, res)
    elif k == 'dedit_all_inputs':
        n = 0
        for start in ('class', 'instance'):
            flt = dedit_build(case['ops'], start)
            for inp in INPUTS:
                want = dedit_model(case['ops'], inp)
                got = dedit_real(flt, inp)
                if got != want:
                    res.fail('C16.dataedit', f"{[OPS[i] for i in case['ops']]} on {inp}: {got}, expected {want}")
                n += 1
        res.evals = n
        res.nt_count = n if len(case['ops']) >= 2 else 0
        res.classes = ['dedit_exhaustive']
    else:
        raise AssertionError(k)
    return res
