"""C19 - duration strings and numbers convert consistently in both directions."""
from fractions import Fraction

from hypothesis import strategies as st

from edzed import utils

from ..runner import Result

ID = 'C19'
LEVEL = 'exploration'
BUDGET = {'quick': 6000, 'thorough': 40000}
RULE = ("Cases: (trad) traditional strings rendered from generated unit parts with random "
        "letter case, inner whitespace, decimal point/comma in the smallest unit, optional "
        "'s'; (iso) ISO 8601 strings incl. 0Y/0M; (num) numbers/None for time_period; "
        "(timestr/approx) round trips of integers dense at unit boundaries and of decimal "
        "fractions with 0..6 digits, also just below a minute / hour / day boundary so that the rounding carries "
        "into the next unit; (bad) grammar-generated malformed strings; (soup) strings glued "
        "from the tokens of both notations (numbers, unit letters, P/T/Y/M, white space, signs, stray "
        "marks) by mutating a nearly valid skeleton, accept/reject and value compared with a hand-written "
        "recursive-descent reading of the documented grammar. Thorough adds "
        "every integer 0..10^6 for the timestr and timestr_approx round trips. "
        "Non-trivial = string with >=2 units or a fraction, a float round trip, a value "
        "within 2 of a unit boundary, a malformed string or a token-soup string; distinct by descriptor.")
ASSUMPTIONS = [
    "expected values computed exactly in fractions.Fraction and compared with 1e-9 relative tolerance",
    "timestr_approx: tolerance = documented step of the magnitude bracket of the input "
    "(1 ms <1 s, 10 ms <10 s, 0.1 s <1 min, 1 s <10 h, 1 min <10 d, 1 h above)",
    "malformed set contains only strings invalid by the documented grammar (docs/utils.rst)",
]

SCALE = [86400, 3600, 60, 1]
UNITS = 'dhms'


def render_num(part, comma):
    ip, fp = part
    if fp is None:
        return ip
    return ip + (',' if comma else '.') + fp


def part_value(part):
    ip, fp = part
    v = Fraction(int(ip))
    if fp is not None:
        v += Fraction(int(fp), 10 ** len(fp))
    return v


def render_trad(case):
    out = case['ws'][0]
    parts = case['parts']
    present = [i for i in range(4) if parts[i] is not None]
    for n, i in enumerate(present):
        unit = UNITS[i]
        if case['upper'][i]:
            unit = unit.upper()
        if i == 3 and not case['s_letter'] and n == len(present) - 1:
            unit = ''
        out += render_num(parts[i], case['comma']) + case['ws'][1 + 2 * i] * (unit != '') + unit
        out += case['ws'][2 + 2 * i]
    return out


def render_iso(case):
    y, mo, d, h, mi, s = case['parts']
    out = case['lead'] + 'P'
    for part, letter in ((y, 'Y'), (mo, 'M'), (d, 'D')):
        if part is not None:
            out += render_num(part, case['comma']) + letter
    if any(p is not None for p in (h, mi, s)):
        out += 'T'
        for part, letter in ((h, 'H'), (mi, 'M'), (s, 'S')):
            if part is not None:
                out += render_num(part, case['comma']) + letter
    return out + case['trail']


# ---------------------------------------------------------------- strategies
digits = st.text('0123456789', min_size=1, max_size=4)
intpart = st.one_of(
    st.integers(0, 400).map(str), digits, st.sampled_from(['0', '00', '59', '60', '61', '72', '1000']))
fracpart = st.one_of(st.text('0123456789', min_size=1, max_size=6), st.text('0123456789', min_size=1, max_size=6),
                     st.text('0123456789', min_size=7, max_size=10))
ws = st.sampled_from(['', '', '', ' ', '  ', '\t'])


@st.composite
def trad_cases(draw):
    present = draw(st.lists(st.booleans(), min_size=4, max_size=4).filter(any))
    smallest = max(i for i in range(4) if present[i])
    parts = []
    for i in range(4):
        if not present[i]:
            parts.append(None)
        else:
            fp = draw(st.one_of(st.none(), fracpart)) if i == smallest else None
            parts.append([draw(intpart), fp])
    return {'k': 'trad', 'parts': parts, 'comma': draw(st.booleans()),
            'upper': draw(st.lists(st.booleans(), min_size=4, max_size=4)),
            'ws': draw(st.lists(ws, min_size=9, max_size=9)),
            's_letter': draw(st.booleans())}


@st.composite
def iso_cases(draw):
    present = draw(st.lists(st.booleans(), min_size=6, max_size=6).filter(lambda p: any(p[2:])))
    smallest = max(i for i in range(6) if present[i])
    parts = []
    for i in range(6):
        if not present[i]:
            parts.append(None)
        elif i < 2:
            parts.append([draw(st.sampled_from(['0', '00'])), None])
        else:
            fp = draw(st.one_of(st.none(), fracpart)) if i == smallest else None
            parts.append([draw(intpart), fp])
    return {'k': 'iso', 'parts': parts, 'comma': draw(st.booleans()),
            'lead': draw(ws), 'trail': draw(ws)}


boundary_ints = st.builds(
    lambda k, unit, d: max(0, k * unit + d),
    st.integers(0, 120), st.sampled_from([1, 60, 3600, 86400, 36000, 864000]), st.integers(-2, 2))
some_int = st.one_of(st.integers(0, 10 ** 7), boundary_ints)


@st.composite
def decimal_value(draw):
    """[integer part, decimals] -> a float with 0..6 (sometimes up to 9) decimals."""
    ip = draw(some_int)
    nd = draw(st.one_of(st.integers(0, 6), st.integers(0, 6), st.integers(7, 9)))
    if nd > 6:
        ip = ip % 100000        # keep nine decimals within the resolution of a float
    frac = draw(st.integers(0, 10 ** nd - 1)) if nd else 0
    if draw(st.booleans()):
        frac = draw(st.sampled_from([0, 10 ** nd - 1, (10 ** nd) // 2, max(0, (10 ** nd) // 2 - 1)])) if nd else 0
    return [ip, nd, frac]


@st.composite
def carry_value(draw):
    """a float so close below a minute / hour / day boundary that rounding to fewer decimals carries into
    the next larger unit (possibly one that would not be printed otherwise)"""
    unit = draw(st.sampled_from([60, 3600, 3600, 86400, 86400]))
    k = draw(st.sampled_from([1, 1, 1, 2, 10, 24]))
    nd = draw(st.integers(1, 9))
    ip = k * unit - 1
    if nd > 6:
        ip = ip % 100000 if (ip % 100000 + 1) % unit == 0 else unit - 1
    frac = 10 ** nd - 1 - draw(st.sampled_from([0, 0, 1, 3, 4, 5]))
    return [ip, nd, max(frac, 0)]


num_cases = st.one_of(
    st.just({'k': 'num', 'kind': 'none'}),
    st.integers(-10 ** 6, 10 ** 7).map(lambda n: {'k': 'num', 'kind': 'int', 'v': n}),
    st.tuples(st.integers(-10 ** 6, 10 ** 7), st.integers(0, 999)).map(
        lambda t: {'k': 'num', 'kind': 'float', 'v': [t[0], t[1]]}),
    st.sampled_from([[], {}, b'5s', (1,)]).map(lambda v: {'k': 'num', 'kind': 'badtype', 'v': repr(v)}),
)
timestr_cases = st.one_of(
    some_int.map(lambda n: {'k': 'timestr', 'n': n, 'sep': ''}),
    st.tuples(some_int, st.sampled_from(['', ' ', '  '])).map(
        lambda t: {'k': 'timestr', 'n': t[0], 'sep': t[1]}),
    st.tuples(decimal_value(), st.one_of(st.integers(0, 6), st.integers(0, 9)), st.sampled_from(['', ' '])).map(
        lambda t: {'k': 'timestrf', 'v': t[0], 'prec': t[1], 'sep': t[2]}),
    st.tuples(carry_value(), st.integers(0, 8), st.sampled_from(['', ' '])).map(
        lambda t: {'k': 'timestrf', 'v': t[0], 'prec': min(t[1], max(t[0][1] - 1, 0)), 'sep': t[2]}),
)
approx_cases = st.one_of(
    some_int.map(lambda n: {'k': 'approx', 'v': [n, 0, 0], 'float': False, 'sep': ''}),
    st.tuples(decimal_value(), st.sampled_from(['', ' '])).map(
        lambda t: {'k': 'approx', 'v': t[0], 'float': True, 'sep': t[1]}),
    st.tuples(carry_value(), st.sampled_from(['', ' '])).map(
        lambda t: {'k': 'approx', 'v': t[0], 'float': True, 'sep': t[1]}),
)


@st.composite
def bad_cases(draw):
    n = st.integers(0, 99).map(str)
    kind = draw(st.sampled_from([
        'empty', 'unit_only', 'order', 'dup', 'frac_larger', 'iso_ym', 'sign', 'iso_lower',
        'iso_no_t', 'two_marks', 'garbage', 'iso_ws', 'neg_time', 'split_number', 'split_number']))
    a, b = draw(n), draw(n)
    first = None
    if kind == 'split_number':
        # a valid string is converted first, then a twin with white space inside a number or inside
        # an ISO string (nothing remembered from the first call may make the second one pass)
        big = str(draw(st.integers(10, 9999)))
        cut = draw(st.integers(1, len(big) - 1))
        gap = draw(st.sampled_from([' ', '  ', '\t']))
        u = draw(st.sampled_from('dhms'))
        first, s = draw(st.sampled_from([
            (f"{big}{u}", f"{big[:cut]}{gap}{big[cut:]}{u}"),
            (f"{a}h{big}s", f"{a}h{big[:cut]}{gap}{big[cut:]}s"),
            (f"{a}.5s", f"{a}.{gap}5s"), (f"{a}.5s", f"{a}{gap}.5s"), (f"{a},25", f"{a},{gap}25"),
            (f"PT{a}H{b}M", f"PT{a}H{gap}{b}M"), (f"P{a}DT{b}S", f"P{a}D{gap}T{b}S"),
            (f"PT{big}S", f"PT{big[:cut]}{gap}{big[cut:]}S"), (f"PT{a}H", f"P{gap}T{a}H"),
        ]))
    elif kind == 'empty':
        s = draw(st.sampled_from(['', ' ', '   ', '\t', '\n']))
    elif kind == 'unit_only':
        s = draw(st.sampled_from(['h', 'd', 'm', 's', 'D', ' h ', 'dh', 'P', 'PT', ' P ', 'T']))
    elif kind == 'order':
        u1, u2 = draw(st.sampled_from([('m', 'h'), ('s', 'm'), ('h', 'd'), ('s', 'd'), ('m', 'd'), ('s', 'h')]))
        s = f"{a}{u1}{draw(ws)}{b}{u2}"
    elif kind == 'dup':
        u = draw(st.sampled_from('dhms'))
        s = f"{a}{u}{draw(ws)}{b}{u}"
    elif kind == 'frac_larger':
        # a fraction in a unit that is followed by a smaller unit - whatever the smaller units' values
        # are (zero included), in both notations
        units = draw(st.lists(st.sampled_from('dhms'), min_size=2, max_size=4, unique=True))
        units = [u for u in 'dhms' if u in units]
        where = draw(st.integers(0, len(units) - 2))
        mark = draw(st.sampled_from('.,'))
        zeros = draw(st.booleans())
        vals = []
        for i, u in enumerate(units):
            v = draw(st.sampled_from(['0', '0', '00'])) if zeros and i > where else draw(n)
            if i == where:
                v = f"{draw(n)}{mark}{draw(st.sampled_from(['5', '25', '0', '999']))}"
            vals.append(v)
        if draw(st.booleans()):
            s = draw(ws).join(f"{v}{u}" for v, u in zip(vals, units))
        else:
            date = ''.join(f"{v}D" for v, u in zip(vals, units) if u == 'd')
            time_ = ''.join(f"{v}{u.upper()}" for v, u in zip(vals, units) if u != 'd')
            s = 'P' + date + ('T' + time_ if time_ else '')
    elif kind == 'iso_ym':
        s = draw(st.sampled_from([
            f"P1Y", f"P{a}Y1M", f"P2M", f"P0Y3M{b}D", f"P1Y{a}DT{b}H", f"P1MT{b}M"]))
    elif kind == 'sign':
        s = draw(st.sampled_from([f"-{a}s", f"+{a}m", f"P-{a}D", f"-{a}", f"{a}h-{b}m", f"PT-{b}S"]))
    elif kind == 'iso_lower':
        s = draw(st.sampled_from([f"p{a}d", f"pt{a}s", f"P{a}d", f"PT{a}h", f"Pt{a}S", f"P{a}Dt{b}H"]))
    elif kind == 'iso_no_t':
        s = draw(st.sampled_from([f"P{a}H", f"P{a}S", f"P{a}D{b}H", f"P{a}D{b}S"]))
    elif kind == 'two_marks':
        s = draw(st.sampled_from([f"{a}.{b}.5s", f"{a}..5s", f"{a}.,5", f"{a},{b},1m", f".{a}s", f"{a}.s"]))
    elif kind == 'garbage':
        s = draw(st.sampled_from([
            'abc', f"{a}x", f"{a}h {b}q", f"{a}hh", f"{a} {b} h x", 'one hour', f"{a}:{b}", f"{a}h{b}m{a}s{b}ms",
            f"0x{a}s", f"{a}e3s", f"{a}_000s", 'inf', 'nan', f"{a}w"]))
    elif kind == 'iso_ws':
        s = draw(st.sampled_from([f"P {a}D", f"P{a}D T{b}H", f"P{a} D", f"PT {b}S", f"P{a}DT{b} H"]))
    else:
        s = draw(st.sampled_from([f"{a}h -{b}m", f"{a}m-1s"]))
    case = {'k': 'bad', 's': s, 'why': kind}
    if first is not None:
        case['first'] = first
    return case


# ---------------------------------------------------------------- token soup (differential)
# Strings glued from the tokens of both notations in any order.  The reference below is a hand-written
# recursive-descent reading of docs/utils.rst (no regular expressions): it says 'ok' with a value,
# 'bad', or 'either' where the documentation does not decide (a 'T' designator with nothing after it).
_soup_num = st.one_of(
    st.integers(0, 120).map(str), st.sampled_from(['0', '00', '007', '1', '60', '3600']),
    st.tuples(st.integers(0, 99), st.sampled_from('.,'), st.sampled_from(['0', '5', '25', '000', '999999'])
              ).map(lambda t: f"{t[0]}{t[1]}{t[2]}"))
_soup_tok = st.one_of(
    _soup_num, _soup_num, st.sampled_from('dhms'), st.sampled_from('dhmsDHMS'), st.sampled_from('PTPTYM'),
    st.sampled_from([' ', ' ', '\t', '\n', '  ']), st.sampled_from(['-', '+', '.', ',', 'w', ':', 'x']))


def _soup_shape(draw):
    """a nearly valid skeleton, so that a large part of the soup is accepted or fails late"""
    if draw(st.booleans()):
        units = [u for u in 'dhms' if draw(st.booleans())]
        toks = []
        for u in units:
            toks += [draw(_soup_num), draw(st.sampled_from(['', '', ' '])), draw(st.sampled_from([u, u.upper()])),
                     draw(st.sampled_from(['', '', ' ']))]
        return [t for t in toks if t]
    toks = ['P']
    for u in 'YMD':
        if draw(st.integers(0, 2)) == 0:
            toks += [draw(st.sampled_from(['0', '00', '1'])) if u != 'D' else draw(_soup_num), u]
    if draw(st.booleans()):
        toks.append('T')
        for u in 'HMS':
            if draw(st.booleans()):
                toks += [draw(_soup_num), u]
    return toks


@st.composite
def soup_cases(draw):
    toks = _soup_shape(draw) if draw(st.integers(0, 3)) else []
    for _ in range(draw(st.integers(0, 3))):       # mutate: insert / delete / replace / swap
        op = draw(st.integers(0, 3))
        if op == 0 or not toks:
            toks.insert(draw(st.integers(0, len(toks))), draw(_soup_tok))
        elif op == 1:
            del toks[draw(st.integers(0, len(toks) - 1))]
        elif op == 2:
            toks[draw(st.integers(0, len(toks) - 1))] = draw(_soup_tok)
        elif len(toks) >= 2:
            i = draw(st.integers(0, len(toks) - 2))
            toks[i], toks[i + 1] = toks[i + 1], toks[i]
    return {'k': 'soup', 's': ''.join(toks)}


_WS = ' \t\n\r\f\v'
_DIG = '0123456789'


def _scan_number(s, i):
    """-> (Fraction, has_fraction, next index) or None"""
    j = i
    while j < len(s) and s[j] in _DIG:
        j += 1
    if j == i:
        return None
    ip = s[i:j]
    if j < len(s) and s[j] in '.,':
        k = j + 1
        while k < len(s) and s[k] in _DIG:
            k += 1
        if k == j + 1:
            return None         # a decimal mark must be followed by digits
        fp = s[j + 1:k]
        return Fraction(int(ip)) + Fraction(int(fp), 10 ** len(fp)), True, k
    return Fraction(int(ip)), False, j


def _skip_ws(s, i):
    while i < len(s) and s[i] in _WS:
        i += 1
    return i


def _finish(parts):
    """parts = [(scale or None, value, has_fraction)] in the order written"""
    if not parts:
        return ('bad', None)
    if any(frac for _, _, frac in parts[:-1]):
        return ('bad', None)
    total = Fraction(0)
    for scale, value, _ in parts:
        if scale is None:
            if value != 0:
                return ('bad', None)
        else:
            total += value * scale
    return ('ok', total)


def ref_duration(s):
    """the documented grammar: -> ('ok', Fraction) | ('bad', None) | ('either', Fraction)"""
    trad = _ref_trad(s)
    if trad[0] != 'bad':
        return trad
    return _ref_iso(s)


def _ref_trad(s):
    i = _skip_ws(s, 0)
    parts = []
    rank = -1
    while i < len(s):
        num = _scan_number(s, i)
        if num is None:
            return ('bad', None)
        value, frac, i = num
        i = _skip_ws(s, i)
        if i < len(s) and s[i] in 'dhmsDHMS':
            r = 'dhms'.index(s[i].lower())
            i += 1
        elif i == len(s):
            r = 3               # only the seconds may go without the unit symbol, i.e. at the very end
        else:
            return ('bad', None)
        if r <= rank:
            return ('bad', None)
        rank = r
        parts.append((SCALE[r], value, frac))
        i = _skip_ws(s, i)
    return _finish(parts)


def _ref_iso(s):
    i = _skip_ws(s, 0)
    end = len(s)
    while end > i and s[end - 1] in _WS:
        end -= 1
    body = s[i:end]
    if not body.startswith('P'):
        return ('bad', None)
    i = 1
    parts = []
    dangling_t = False
    for section, designators in (('date', 'YMD'), ('time', 'HMS')):
        if section == 'time':
            if i < len(body) and body[i] == 'T':
                i += 1
                dangling_t = True
            else:
                break
        rank = -1
        while i < len(body) and body[i] != 'T':
            num = _scan_number(body, i)
            if num is None:
                return ('bad', None)
            value, frac, i = num
            if i >= len(body) or body[i] not in designators:
                return ('bad', None)
            r = designators.index(body[i])
            i += 1
            if r <= rank:
                return ('bad', None)
            rank = r
            scale = {'D': 86400, 'H': 3600, 'S': 1}.get(designators[r])
            if section == 'time' and designators[r] == 'M':
                scale = 60
            parts.append((scale, value, frac))
            dangling_t = False
    if i != len(body):
        return ('bad', None)
    verdict = _finish(parts)
    if dangling_t and verdict[0] == 'ok':
        return ('either', verdict[1])
    return verdict


def strategy(tier):
    return st.one_of(trad_cases(), iso_cases(), num_cases, timestr_cases, approx_cases,
                     bad_cases(), trad_cases(), iso_cases(), soup_cases(), soup_cases())


def fixed_bad():
    """the malformed strings that do not depend on random choices (or only on two small numbers)"""
    for s in ['', ' ', '   ', '\t', '\n']:
        yield {'k': 'bad', 's': s, 'why': 'empty'}
    for s in ['h', 'd', 'm', 's', 'D', ' h ', 'dh', 'P', 'PT', ' P ', 'T', 'P T', 'pt', 'PT ', ' PT']:
        yield {'k': 'bad', 's': s, 'why': 'unit_only'}
    for a, b in ((0, 0), (1, 2), (10, 59)):
        for why, strings in (
                ('iso_ym', [f"P1Y", f"P{a}Y1M", f"P2M", f"P0Y3M{b}D", f"P1Y{a}DT{b}H", f"P1MT{b}M"]),
                ('sign', [f"-{a}s", f"+{a}m", f"P-{a}D", f"-{a}", f"{a}h-{b}m", f"PT-{b}S"]),
                ('iso_lower', [f"p{a}d", f"pt{a}s", f"P{a}d", f"PT{a}h", f"Pt{a}S", f"P{a}Dt{b}H"]),
                ('iso_no_t', [f"P{a}H", f"P{a}S", f"P{a}D{b}H", f"P{a}D{b}S"]),
                ('two_marks', [f"{a}.{b}.5s", f"{a}..5s", f"{a}.,5", f"{a},{b},1m", f".{a}s", f"{a}.s"]),
                ('garbage', ['abc', f"{a}x", f"{a}h {b}q", f"{a}hh", f"{a} {b} h x", 'one hour', f"{a}:{b}",
                             f"{a}h{b}m{a}s{b}ms", f"0x{a}s", f"{a}e3s", f"{a}_000s", 'inf', 'nan', f"{a}w"]),
                ('iso_ws', [f"P {a}D", f"P{a}D T{b}H", f"P{a} D", f"PT {b}S", f"P{a}DT{b} H"]),
                ('neg_time', [f"{a}h -{b}m", f"{a}m-1s"])):
            for text in strings:
                yield {'k': 'bad', 's': text, 'why': why}


def exhaustive(tier):
    if tier != 'thorough':
        return ("the fixed part of the list of malformed duration strings", fixed_bad())

    def gen():
        yield from fixed_bad()
        for n in range(0, 10 ** 6 + 1):
            yield {'k': 'timestr', 'n': n, 'sep': ''}
            yield {'k': 'approx', 'v': [n, 0, 0], 'float': False, 'sep': ''}
    return ("the fixed part of the list of malformed duration strings; every integer 0..10^6: convert(timestr(n)) == n and "
            "|convert(timestr_approx(n)) - n| < documented step", gen())


# ---------------------------------------------------------------- oracle
def close(got, expected):
    return abs(Fraction(got) - expected) <= Fraction(1, 10 ** 9) * max(1, expected)


def approx_step(x):
    if x < 1:
        return Fraction(1, 1000)
    if x < 10:
        return Fraction(1, 100)
    if x < 60:
        return Fraction(1, 10)
    if x < 36000:
        return Fraction(1)
    if x < 864000:
        return Fraction(60)
    return Fraction(3600)


def near_boundary(n):
    return any(abs(n - round(n / u) * u) <= 2 for u in (60, 3600, 86400))


def execute(case):
    res = Result()
    k = case['k']
    res.classes = [k]
    if k in ('trad', 'iso'):
        text = render_trad(case) if k == 'trad' else render_iso(case)
        parts = case['parts'] if k == 'trad' else case['parts'][2:]
        expected = sum((part_value(p) * s for p, s in zip(parts, SCALE) if p is not None), Fraction(0))
        for func in (utils.convert, utils.time_period):
            try:
                got = func(text)
            except Exception as err:
                res.fail('C19.valid_string_rejected', f"{func.__name__}({text!r}) raised {err!r}")
                continue
            if not isinstance(got, float):
                res.fail('C19.result_type', f"{func.__name__}({text!r}) -> {got!r}")
            elif not close(got, expected):
                res.fail('C19.string_value', f"{func.__name__}({text!r}) = {got!r}, expected {float(expected)!r}")
        nunits = sum(p is not None for p in parts)
        has_frac = any(p is not None and p[1] is not None for p in parts)
        res.nontrivial = nunits >= 2 or has_frac
        if has_frac:
            res.classes.append('fraction' + ('/comma' if case['comma'] else '/point'))
        res.outcome = {'text': text, 'seconds': float(expected)}
    elif k == 'num':
        kind = case['kind']
        if kind == 'none':
            if utils.time_period(None) is not None:
                res.fail('C19.none', 'time_period(None) is not None')
        elif kind == 'badtype':
            val = eval(case['v'])   # literal from a fixed list
            try:
                got = utils.time_period(val)
            except (TypeError, ValueError):
                pass
            else:
                res.fail('C19.bad_type_accepted', f"time_period({val!r}) -> {got!r}")
        else:
            if kind == 'int':
                val = case['v']
                expected = Fraction(max(0, val))
            else:
                ip, milli = case['v']
                val = ip + milli / 1000 if ip >= 0 else ip - milli / 1000
                expected = max(Fraction(0), Fraction(val))
            got = utils.time_period(val)
            if not isinstance(got, float) or Fraction(got) != expected:
                res.fail('C19.number', f"time_period({val!r}) -> {got!r}")
            res.nontrivial = val < 0
            res.outcome = {'in': val, 'out': got}
    elif k == 'timestr':
        n = case['n']
        text = utils.timestr(n, sep=case['sep'])
        try:
            back = utils.convert(text)
        except Exception as err:
            res.fail('C19.timestr_not_parseable', f"timestr({n}) = {text!r}: {err!r}")
        else:
            if back != n:
                res.fail('C19.timestr_roundtrip', f"convert(timestr({n}) = {text!r}) = {back!r}")
        res.nontrivial = near_boundary(n) and n >= 58
        res.outcome = {'n': n, 'text': text}
    elif k == 'timestrf':
        ip, nd, frac = case['v']
        exact = Fraction(ip) + (Fraction(frac, 10 ** nd) if nd else 0)
        x = float(exact)
        prec = case['prec']
        text = utils.timestr(x, sep=case['sep'], prec=prec)
        try:
            back = utils.convert(text)
        except Exception as err:
            res.fail('C19.timestr_not_parseable', f"timestr({x!r}, prec={prec}) = {text!r}: {err!r}")
        else:
            tol = Fraction(1, 2 * 10 ** prec) + Fraction(1, 10 ** 9) * max(1, exact)
            if abs(Fraction(back) - Fraction(x)) > tol:
                res.fail('C19.timestr_precision',
                         f"convert(timestr({x!r}, prec={prec}) = {text!r}) = {back!r}")
        res.nontrivial = True
        res.outcome = {'x': x, 'prec': prec, 'text': text}
    elif k == 'approx':
        ip, nd, frac = case['v']
        exact = Fraction(ip) + (Fraction(frac, 10 ** nd) if nd else 0)
        x = float(exact) if case['float'] else ip
        text = utils.timestr_approx(x, sep=case['sep'])
        try:
            back = utils.convert(text)
        except Exception as err:
            res.fail('C19.approx_not_parseable', f"timestr_approx({x!r}) = {text!r}: {err!r}")
        else:
            if not abs(Fraction(back) - Fraction(x)) < approx_step(Fraction(x)) + Fraction(1, 10 ** 9):
                res.fail('C19.approx_step', f"convert(timestr_approx({x!r}) = {text!r}) = {back!r}")
        res.nontrivial = case['float'] or near_boundary(ip) or ip >= 36000
        res.outcome = {'x': x, 'text': text}
    elif k == 'soup':
        text = case['s']
        verdict, value = ref_duration(text)
        for func in (utils.convert, utils.time_period):
            try:
                got = func(text)
            except ValueError:
                if verdict == 'ok':
                    res.fail('C19.valid_string_rejected', f"{func.__name__}({text!r}) raised ValueError, "
                             f"documented grammar gives {float(value)!r}")
            except Exception as err:
                res.fail('C19.malformed_wrong_exception', f"{func.__name__}({text!r}) raised {err!r}")
            else:
                if verdict == 'bad':
                    res.fail('C19.malformed_accepted', f"{func.__name__}({text!r}) -> {got!r} (token soup)")
                elif not isinstance(got, float) or not close(got, value):
                    res.fail('C19.string_value', f"{func.__name__}({text!r}) = {got!r}, expected {float(value)!r}")
        res.classes.append('soup/' + verdict)
        res.nontrivial = True
        res.outcome = {'text': text, 'reference': verdict, 'seconds': None if value is None else float(value)}
    elif k == 'bad':
        text = case['s']
        for func in (utils.convert, utils.time_period):
            if 'first' in case:
                try:
                    func(case['first'])
                except Exception as err:
                    res.fail('C19.valid_refused', f"{func.__name__}({case['first']!r}) raised {err!r}")
            try:
                got = func(text)
            except ValueError:
                pass
            except Exception as err:
                res.fail('C19.malformed_wrong_exception', f"{func.__name__}({text!r}) raised {err!r}")
            else:
                res.fail('C19.malformed_accepted', f"{func.__name__}({text!r}) -> {got!r} ({case['why']})")
        res.nontrivial = True
        res.classes.append('bad/' + case['why'])
        res.outcome = {'text': text}
    else:
        raise AssertionError(k)
    return res
