"""C08 - every started block is stopped exactly once and nothing outlives the simulation.

Generator: circuit of probe blocks (every lifecycle method logs and may fail as scripted) and
library blocks that own tasks or timers, fault sites, termination cause, instant of the
termination (incl. a second request during clean-up) and entry point.
Oracle: invariants over the call log (instance-level instrumentation of start/stop/stop_async
of every block), census of pending tasks and timer handles when the simulation has ended,
output logs of the output blocks, and the frozen/terminal state of the circuit.
"""
import asyncio
import os
import signal

from hypothesis import strategies as st

import edzed

from .. import harness
from ..runner import Result

ID = 'C08'
LEVEL = 'fault_enumeration'
BUDGET = {'quick': 2500, 'thorough': 10000}
PHASES = ['start', 'restore', 'init_async', 'init_regular', 'init_from_value', 'event', 'stop',
          'stop_async', 'stop_async_slow', 'maintask']
CAUSES = ['shutdown', 'abort', 'ctrl_shutdown', 'ctrl_abort', 'sup_return', 'sup_fail', 'sigterm', 'none',
          'abort_before_start']
RULE = ("Case = 1-4 probe blocks (synchronous, or with init_async - honouring an interruption, cleaning up for 0.4 s first, or turning it into an ordinary failure - / stop_async / a main task; start-up sources; "
        "fault site in {start, restore, init_async, init_regular, init_from_value, event handler, main task, stop, "
        "stop_async raising, stop_async exceeding stop_timeout}) + library blocks from {Timer (running timer), "
        "Repeat (mid-repetition), ValuePoll, OutputAsync (run in progress, stop_data), OutputFunc (stop_data), "
        "TimeDate (cron main task), InputExp (expiry timer), FuncBlock whose calc_output may raise} x termination "
        "cause in {shutdown(), supporting task returns / raises, SIGTERM, Event.shutdown(), Event.abort(), abort(exc), "
        "abort before start, the fault itself} x instant in {0, 0.5, 1.5, 4, 10 s} (start-up with async init in "
        "progress or running) x optional second termination request 0.3 s later (during asynchronous clean-up) x "
        "entry point run() / run_forever(). Non-trivial = (>=1 fault or a cause other than shutdown()) and >=1 "
        "asynchronous block or timer alive at the instant of termination; distinct by descriptor.")
ASSUMPTIONS = [
    "a fault injected into start() is raised before the block acquires anything (before super().start())",
    "stop_timeout <= 0 is not generated for blocks whose asynchronous clean-up is the cancellation of "
    "their main task (documented opt-out)",
    "stop_data must be the last processed item only when the block was started; output runs are short "
    "enough to fit into stop_timeout",
    "SIGTERM is generated only with edzed.run(), which installs the handler",
]

UNDEF = edzed.UNDEF


class Fault(Exception):
    pass


class PB(edzed.AddonPersistence, edzed.AddonAsync, edzed.SBlock):
    """probe block: every lifecycle method logs and optionally fails"""

    def __init__(self, *args, cfg, **kwargs):
        self.cfg = cfg
        super().__init__(*args, **kwargs)

    def _f(self, phase):
        if self.cfg['fault'] == phase:
            raise Fault(f'{self.name}:{phase}')

    def start(self):
        self._f('start')
        super().start()

    def _restore_state(self, state):
        self._f('restore')
        self.set_output(state)

    async def init_async(self):
        self._f('init_async')
        try:
            await asyncio.sleep(self.cfg['ia_delay'])
        except asyncio.CancelledError:
            # reaction to an interruption: let it through, clean up first (closing a connection takes a
            # moment), or report it as an ordinary failure
            how = self.cfg.get('ia_cancel')
            if how == 'slow':
                await asyncio.sleep(0.4)
            elif how == 'exc':
                raise Fault('init_async interrupted') from None
            raise
        if not self.is_initialized():
            self.set_output('async')

    def init_regular(self):
        self._f('init_regular')
        if self.cfg['regular']:
            self.set_output('regular')

    def init_from_value(self, value):
        self._f('init_from_value')
        self.set_output(value)

    def _event_put(self, *, value, **_data):
        self._f('event')
        self.set_output(value)

    def stop(self):
        super().stop()
        self._f('stop')

    async def stop_async(self):
        self._f('stop_async')
        await asyncio.sleep(self.cfg['sa_delay'])

    def get_state(self):
        return self.output


class PBM(edzed.AddonMainTask, edzed.SBlock):
    """probe block with a main task"""

    def __init__(self, *args, cfg, **kwargs):
        self.cfg = cfg
        super().__init__(*args, **kwargs)

    def init_regular(self):
        self.set_output(0)

    async def _maintask(self):
        while True:
            await asyncio.sleep(self.cfg['mt_delay'])
            if self.cfg['fault'] == 'maintask':
                raise Fault(f'{self.name}:maintask')
            self.set_output(self.output + 1)


class Sink(edzed.SBlock):
    def init_regular(self):
        self.set_output(0)

    def _event(self, etype, data):
        return None


class Trigger(edzed.SBlock):
    def init_regular(self):
        self.set_output(0)

    def _event_go(self, **_data):
        self.set_output(self.output + 1)


# ---------------------------------------------------------------- generator
@st.composite
def cases(draw):
    blocks = []
    for i in range(draw(st.integers(1, 4))):
        kind = draw(st.sampled_from(['pb', 'pb', 'pb', 'pbm']))
        if kind == 'pb':
            has_ia = draw(st.booleans())
            has_sa = draw(st.booleans())
            cfg = {'kind': 'pb',
                   'ia_delay': draw(st.sampled_from([1, 3, 20])) if has_ia else None,
                   'init_timeout': draw(st.sampled_from([2, 5])),
                   'sa_delay': draw(st.sampled_from([0, 1, 1, 6])) if has_sa else None,
                   'stop_timeout': draw(st.sampled_from([0.5, 3, 3])),
                   'regular': draw(st.booleans()),
                   'initdef': draw(st.sampled_from([None, 0, 0])),
                   # persistent with a saved state / persistent in its first run (nothing saved yet)
                   'saved': draw(st.sampled_from([None, None, 'saved', 'absent'])),
                   'fault': draw(st.sampled_from([None] * 8 + PHASES[:9]))}
            if has_ia:
                cfg['ia_cancel'] = draw(st.sampled_from([None, None, 'slow', 'exc']))
            if cfg['fault'] in ('init_async',) and not has_ia:
                cfg['ia_delay'] = 1
            if cfg['fault'] in ('stop_async', 'stop_async_slow') and not has_sa:
                cfg['sa_delay'] = 1
            if cfg['fault'] == 'stop_async_slow':
                cfg['sa_delay'] = 6
                cfg['stop_timeout'] = 3
                cfg['fault'] = None         # exceeding the timeout is the fault
            if cfg['fault'] == 'restore':
                cfg['saved'] = 'saved'
        else:
            cfg = {'kind': 'pbm', 'mt_delay': draw(st.sampled_from([0.7, 2.2])),
                   'fault': draw(st.sampled_from([None, None, 'maintask']))}
        blocks.append(cfg)
    lib = draw(st.lists(st.sampled_from(['timer', 'repeat', 'valuepoll', 'oasync', 'ofunc', 'timedate',
                                         'inputexp', 'calc']), unique=True, max_size=4))
    case = {'blocks': blocks, 'lib': lib,
            'oa_mode': draw(st.sampled_from(['c', 'w', 's'])), 'oa_stop_data': draw(st.booleans()),
            'calc_fault': draw(st.integers(0, 2)) == 0,
            'lib_persistent': draw(st.booleans()),
            # the astable Timer also feeds the OutputAsync block: puts keep arriving until the Timer
            # (a block without asynchronous clean-up) is stopped, i.e. also while the output block is
            # completing its work during the clean-up
            'tm_feeds_oa': draw(st.booleans()),
            'cause': draw(st.sampled_from(CAUSES)),
            'when': draw(st.sampled_from([0, 0.5, 1.5, 4, 10, 5, 9])),
            # a guard time keeps the control task of the output block busy for a while
            'oa_guard': draw(st.sampled_from([None, None, 3.5])),
            'second': draw(st.sampled_from([None, None, 'abort', 'shutdown', 'sigterm'])),
            'entry': draw(st.sampled_from(['run', 'run', 'rf'])),
            'traffic': draw(st.lists(st.sampled_from([0.6, 1.2, 2.4, 3.6]), unique=True, max_size=3))}
    if draw(st.integers(0, 5)) == 0:
        # template: an output block kept busy by a Timer until the very end
        case['lib'] = sorted(set(case['lib']) | {'timer', 'oasync'})
        case['tm_feeds_oa'] = True
        case['oa_stop_data'] = True
        case['oa_guard'] = 3.5
        case['oa_mode'] = 'c'
        case['when'] = draw(st.sampled_from([4, 5, 9, 10]))
    if case['entry'] == 'rf':
        if case['cause'] in ('sup_return', 'sup_fail', 'sigterm'):
            case['cause'] = 'shutdown'
        if case['second'] == 'sigterm':
            case['second'] = 'abort'
    return case


def strategy(tier):
    return cases()


# ---------------------------------------------------------------- executor
def instrument(blk, log, clock):
    """log start/stop/stop_async of any block (instance attributes; no source hooks)"""
    name = blk.name
    orig_start, orig_stop = blk.start, blk.stop

    def start():
        log.append((name, 'start_enter', clock()))
        orig_start()
        log.append((name, 'start_return', clock()))

    def stop():
        log.append((name, 'stop_enter', clock()))
        try:
            orig_stop()
        finally:
            log.append((name, 'stop_exit', clock()))
    blk.start = start
    blk.stop = stop
    if blk.has_method('stop_async'):
        orig_sa = blk.stop_async

        async def stop_async():
            log.append((name, 'stop_async_enter', clock()))
            try:
                await orig_sa()
            finally:
                log.append((name, 'stop_async_exit', clock()))
        blk.stop_async = stop_async


def execute(case):
    res = Result()
    log = []
    outlog = []
    obs = {}

    async def scenario(loop):
        harness.reset()
        circuit = edzed.get_circuit()
        t0 = loop.time()

        def clock():
            return round(loop.time() - t0, 6)
        storage = harness.DeepCopyDict()
        sink = Sink('sink')
        probes = []
        for i, cfg in enumerate(case['blocks']):
            if cfg['kind'] == 'pb':
                kw = {'stop_timeout': cfg['stop_timeout']}
                if cfg['initdef'] is not None:
                    kw['initdef'] = cfg['initdef']
                blk = PB(f'b{i}', cfg=cfg, persistent=cfg['saved'] is not None,
                         init_timeout=cfg['init_timeout'], **kw)
                if cfg['ia_delay'] is None:
                    blk.init_timeout = 0.0
                if cfg['sa_delay'] is None:
                    blk.stop_timeout = 0.0
                if cfg['saved'] == 'saved':
                    storage[blk.key] = cfg['saved']
            else:
                blk = PBM(f'b{i}', cfg=cfg, stop_timeout=3)
            probes.append(blk)
        lib = {}
        for kind in case['lib']:
            if kind == 'timer':
                tm_events = [edzed.Event(sink, 'x')]
                if case.get('tm_feeds_oa') and 'oasync' in case['lib']:
                    tm_events.append(edzed.Event('oa', 'put'))
                lib[kind] = edzed.Timer('tm', t_on=1.5, t_off=2.5, on_output=tm_events,
                                        persistent=bool(case.get('lib_persistent')))
            elif kind == 'repeat':
                lib[kind] = edzed.Repeat('rp', dest=sink, etype='x', interval=0.7)
            elif kind == 'valuepoll':
                lib[kind] = edzed.ValuePoll('vp', func=lambda: 1, interval=0.9)
            elif kind == 'oasync':
                async def coro(value):
                    outlog.append(('a-start', value, clock()))
                    await asyncio.sleep(1)
                    outlog.append(('a-end', value, clock()))
                lib[kind] = edzed.OutputAsync(
                    'oa', coro=coro, mode=case['oa_mode'], on_error=None, stop_timeout=20,
                    # (cancel mode only: in wait mode the Timer would feed the block faster than run + guard
                    # time can take the events, and a clean-up longer than stop_timeout is the open finding F18)
                    **({'guard_time': case['oa_guard']} if case.get('oa_guard') and case['oa_mode'] == 'c' else {}),
                    stop_data={'value': 'STOP'} if case['oa_stop_data'] else None)
            elif kind == 'ofunc':
                lib[kind] = edzed.OutputFunc('of', func=lambda v: outlog.append(('f', v, clock())),
                                             on_error=None, stop_data={'value': 'FSTOP'})
            elif kind == 'timedate':
                lib[kind] = edzed.TimeDate('td', times='1:00-2:00')
            elif kind == 'inputexp':
                lib[kind] = edzed.InputExp('ie', duration=3, initdef=1,
                                           persistent=bool(case.get('lib_persistent')))
            elif kind == 'calc':
                fail = case['calc_fault']

                def calc(x):
                    if fail and x == 'boom':
                        raise Fault('calc_output')
                    return 0
                lib[kind] = edzed.FuncBlock('cb', func=calc).connect('b0')
        cause = case['cause']
        if cause.startswith('ctrl'):
            try:
                ctrl_event = edzed.Event.shutdown() if cause == 'ctrl_shutdown' else edzed.Event.abort()
            except AttributeError as err:
                obs['ctrl_missing'] = repr(err)
                return
            Trigger('trig', on_output=ctrl_event)
        circuit.set_persistent_data(storage)
        obs['blocks'] = {b.name: (type(b).__name__, b.has_method('stop_async')
                                  and getattr(b, 'stop_timeout', 0) > 0)
                         for b in circuit.getblocks()}
        obs['stop_timeout'] = {b.name: getattr(b, 'stop_timeout', 0) for b in circuit.getblocks()}
        for b in list(circuit.getblocks()):
            instrument(b, log, clock)
        if cause == 'abort_before_start':
            circuit.abort(Fault('aborted before start'))

        def send(target, *args, etype='put'):
            try:
                edzed.ExtEvent(target, etype).send(*args)
            except Exception:
                pass

        def terminate(how):
            if how == 'abort':
                circuit.abort(Fault('abort!'))
            elif how == 'sigterm':
                os.kill(os.getpid(), signal.SIGTERM)
            elif how.startswith('ctrl'):
                send('trig', etype='go')

        async def traffic():
            for t in case['traffic']:
                await harness.vloop.sleep_until(loop, t0 + t)
                for i, cfg in enumerate(case['blocks']):
                    if cfg['kind'] == 'pb':
                        send(probes[i], 'boom' if i == 0 and case['calc_fault'] and t > 2 else f'v{t}')
                for kind, blk in lib.items():
                    if kind in ('oasync', 'ofunc'):
                        send(blk, t)
                    elif kind == 'repeat':
                        send(blk, 1, etype='x')
                    elif kind == 'inputexp':
                        send(blk, 2)

        async def waiter():
            # an application task waiting for the start-up, as applications do
            try:
                await circuit.wait_init()
                obs['wait_init'] = 'ok'
            except Exception as err:
                obs['wait_init'] = type(err).__name__

        async def killer(sim_waiter=None):
            tr = asyncio.create_task(traffic())
            wt = asyncio.create_task(waiter())
            try:
                await harness.vloop.sleep_until(loop, t0 + case['when'])
                if cause == 'shutdown':
                    sd = asyncio.create_task(circuit.shutdown())
                elif cause in ('abort', 'sigterm', 'ctrl_shutdown', 'ctrl_abort'):
                    terminate(cause)
                elif cause == 'sup_return':
                    return
                elif cause == 'sup_fail':
                    raise Fault('supporting task failed')
                if case['second'] is not None:
                    await asyncio.sleep(0.3)
                    if case['second'] == 'shutdown':
                        sd2 = asyncio.create_task(circuit.shutdown())
                        sd2.add_done_callback(lambda t: t.exception() if not t.cancelled() else None)
                    else:
                        terminate(case['second'])
                if cause == 'shutdown':
                    try:
                        await sd
                    except Exception:
                        pass
                await asyncio.sleep(50)
            finally:
                tr.cancel()

        if case['entry'] == 'run':
            try:
                await edzed.run(killer())
                obs['result'] = None
            except BaseException as err:
                obs['result'] = type(err).__name__
        else:
            task = asyncio.create_task(circuit.run_forever())
            kt = asyncio.create_task(killer())
            await asyncio.wait([task, kt], return_when=asyncio.FIRST_COMPLETED)
            if not task.done():
                # nothing terminated the simulation (cause 'none' without an effective fault)
                try:
                    await circuit.shutdown()
                except BaseException:
                    pass
            try:
                await task
                obs['result'] = None
            except BaseException as err:
                obs['result'] = type(err).__name__
            kt.cancel()
            try:
                await kt
            except BaseException:
                pass
        obs['t_end'] = clock()
        # ---- what is left when the simulation has ended
        await harness.quiesce(loop)
        cur = asyncio.current_task()
        obs['tasks'] = sorted(t.get_name() + ':' + getattr(t.get_coro(), '__qualname__', '?')
                              for t in asyncio.all_tasks(loop) if t is not cur and not t.done())
        obs['timers'] = [repr(h)[:120] for h in loop._scheduled if not h._cancelled]
        obs['ready'] = circuit.is_ready()
        obs['error'] = None if circuit.error is None else type(circuit.error).__name__
        n_log, n_out = len(log), len(outlog)
        # terminal state
        frozen = {}
        for what, func in {
                'run_forever': lambda: circuit.run_forever(),
                'new block': lambda: edzed.Input('late', initdef=0),
                'connect': lambda: edzed.CBlock.connect(lib['calc'], 'sink') if 'calc' in lib else
                edzed.Not('late2').connect('sink'),
                'set_persistent_data': lambda: circuit.set_persistent_data({})}.items():
            try:
                r = func()
                if asyncio.iscoroutine(r):
                    await r
                frozen[what] = None
            except BaseException as err:
                frozen[what] = type(err).__name__
        obs['frozen'] = frozen
        await asyncio.sleep(30)
        await harness.quiesce(loop)
        obs['late_log'] = log[n_log:]
        obs['late_out'] = outlog[n_out:]

    # a SIGTERM arriving when edzed's handler is not installed must not kill the checker
    saved = signal.signal(signal.SIGTERM, lambda signo, frame: obs.setdefault('stray_sigterm', True))
    try:
        harness.run_case(scenario, read_latency_us=1)
    finally:
        signal.signal(signal.SIGTERM, saved)

    # ---------------------------------------------------------------- oracle
    if 'ctrl_missing' in obs:
        res.fail('C08.control_event_missing', f"documented control event constructor: {obs['ctrl_missing']}")
        return res
    started = {n for n, what, _ in log if what == 'start_return'}
    entered = [n for n, what, _ in log if what == 'start_enter']
    for name, (cls, is_async) in obs['blocks'].items():
        nstop = sum(1 for n, what, _ in log if n == name and what == 'stop_enter')
        if name in started and nstop != 1:
            res.fail('C08.stop_count', f"{name} ({cls}): start() returned but stop() was called {nstop} times")
        if name not in started and nstop:
            res.fail('C08.stopped_without_start', f"{name} ({cls}): start() did not return but stop() was called")
    pos = {(n, what): k for k, (n, what, _) in enumerate(log)}
    async_started = [n for n, (cls, a) in obs['blocks'].items() if a and n in started]
    sync_started = [n for n, (cls, a) in obs['blocks'].items() if not a and n in started]
    for a in async_started:
        if (a, 'stop_enter') in pos and (a, 'stop_async_enter') in pos \
                and pos[(a, 'stop_enter')] > pos[(a, 'stop_async_enter')]:
            res.fail('C08.stop_after_stop_async', f"{a}: stop_async started before stop()")
        if (a, 'stop_enter') in pos and (a, 'stop_async_enter') not in pos:
            res.fail('C08.stop_async_missing', f"{a}: stopped but its stop_async was never run")
        if (a, 'stop_async_enter') in pos and (a, 'stop_async_exit') not in pos:
            res.fail('C08.stop_async_pending', f"{a}: stop_async still running after the end")
        for s in sync_started:
            if (s, 'stop_enter') in pos and (a, 'stop_async_exit') in pos \
                    and pos[(s, 'stop_enter')] < pos[(a, 'stop_async_exit')]:
                res.fail('C08.sync_before_async', f"{s} was stopped before the asynchronous clean-up of {a} ended")
    # the whole asynchronous clean-up is bounded by the largest stop_timeout of the blocks involved
    limit = max([obs['stop_timeout'][a] for a in async_started] or [0])
    for a in async_started:
        ent = [t for n, what, t in log if n == a and what == 'stop_async_enter']
        ext = [t for n, what, t in log if n == a and what == 'stop_async_exit']
        if ent and ext and ext[0] - ent[0] > limit + 1e-6:
            res.fail('C08.stop_timeout_exceeded', f"{a}: stop_async ran {ext[0] - ent[0]} s, largest stop_timeout {limit}")
    if obs['tasks']:
        res.fail('C08.leaked_task', f"pending after the end: {obs['tasks']}")
    if obs['timers']:
        res.fail('C08.leaked_timer', f"live timer handles after the end: {obs['timers']}")
    if obs['late_log'] or obs['late_out']:
        res.fail('C08.activity_after_end', f"{(obs['late_log'] + obs['late_out'])[:3]}")
    if obs['ready']:
        res.fail('C08.ready_after_end', "is_ready() is True after the simulation has ended")
    for what, r in obs['frozen'].items():
        if r != 'EdzedInvalidState':
            res.fail('C08.not_terminal', f"{what} after the end: {r or 'accepted'}")
    # stop_data of the output blocks
    if 'of' in started:
        fl = [x for x in outlog if x[0] == 'f']
        if not fl or fl[-1][1] != 'FSTOP':
            res.fail('C08.stop_data', f"OutputFunc: stop_data was not the last call: {fl[-3:]}")
    if 'oa' in started and case['oa_stop_data']:
        st_ = [x for x in outlog if x[0] == 'a-start']
        if not st_ or st_[-1][1] != 'STOP' or ('a-end', 'STOP') not in [(x[0], x[1]) for x in outlog]:
            res.fail('C08.stop_data', f"OutputAsync: stop_data not processed last: {outlog[-4:]}")
    # classification
    faults = [c['fault'] for c in case['blocks'] if c['fault']] + (
        ['calc'] if case['calc_fault'] and 'calc' in case['lib'] else [])
    slow = any(c['kind'] == 'pb' and c['sa_delay'] == 6 for c in case['blocks'])
    alive_async = any(c['kind'] == 'pbm' or (c['kind'] == 'pb' and (c['ia_delay'] or c['sa_delay'] is not None))
                      for c in case['blocks']) or any(k in case['lib'] for k in (
                          'timer', 'repeat', 'valuepoll', 'oasync', 'timedate', 'inputexp'))
    res.nontrivial = bool((faults or slow or case['cause'] != 'shutdown') and alive_async)
    res.classes = [f"cause={case['cause']}", f"entry={case['entry']}"]
    for f in set(faults):
        res.classes.append(f'fault:{f}')
    if slow:
        res.classes.append('fault:stop_async exceeds stop_timeout')
    if case['second']:
        res.classes.append('second request during clean-up')
    if len(started) < len(entered):
        res.classes.append('start() failed for a block')
    started_lib = sorted(k for k in case['lib'])
    res.outcome = {'started': len(started), 'blocks': len(obs['blocks']), 'result': obs['result'],
                   'error': obs['error'], 'lib': started_lib}
    return res
