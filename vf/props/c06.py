"""C06 - saved state always matches the last completed event and survives a restart.

Run 1: a circuit of persistent blocks with a deep-copying storage; after initialisation, after
every event (external and timed) and at the stop the stored entry is compared with the block's
state; every such moment is a crash point (storage snapshot).  Run 2: for chosen crash points
and downtimes the same circuit is started from the snapshot on a wall clock advanced by the
downtime; a control run with an empty storage shows what normal initialisation gives.
"""
import asyncio
import copy
import datetime as _dt

from hypothesis import strategies as st

import edzed

from .. import fsmlab
from .. import harness
from ..runner import Result

ID = 'C06'
LEVEL = 'fault_enumeration'
BUDGET = {'quick': 1200, 'thorough': 3000}
RULE = ("Case = 1-3 persistent blocks of different kinds from {Input (one with a failing check function), Counter, "
        "Timer, InputExp, generated timed FSM with sdata and entry actions, TimeDate, TimeSpan} x sync_state "
        "on/off x expiration in {None, 0, -1, 5 s, 1000 s, '7s'} x pre-existing storage (unused keys, edzed-* keys, "
        "stop timestamp absent / valid / not a float) x history of 0-8 steps (events incl. rejected ones, unknown "
        "types, missing parameters, one that makes a handler raise; waits that let timers fire) x end of run 1 in "
        "{regular stop, abort(), failed start()}; crash points = storage snapshots after initialisation, after "
        "every step and after the stop; for up to 3 crash points (thorough: all) x downtimes {0, shorter / longer than "
        "the remaining timer by 1 ms or seconds, around the expiration} the circuit is restarted from the snapshot. "
        "Non-trivial = a restart from a snapshot taken after >=1 state-changing event of a block with a pending "
        "timer, with downtimes on both sides of the remaining time, or a restart decided by 'expiration'; distinct "
        "by descriptor.")
ASSUMPTIONS = [
    "the storage copies values on write and on read like shelve/pickle would (no aliasing with FSM.sdata)",
    "the state saved at a regular stop is compared with get_state() taken immediately before the stop",
    "what normal initialisation yields is taken from a control run with an empty storage at the same wall time",
    "for TimeDate/TimeSpan only the restored configuration is compared (their output follows the clock: C07)",
    "downtime never makes the remaining timer exactly zero (offsets of at least 1 ms)",
]

UNDEF = edzed.UNDEF
EPOCH = _dt.datetime(1970, 1, 1)
T0 = _dt.datetime(2024, 3, 1, 12, 0, 0)
KINDS = ['input', 'counter', 'timer', 'inputexp', 'fsm', 'timedate', 'timespan']
EXPIRATIONS = [None, None, 0, -1, 5, 1000, '7s']


def exp_value(e):
    return 7.0 if e == '7s' else e


# ---------------------------------------------------------------- generator
@st.composite
def block_cfg(draw, kind):
    cfg = {'kind': kind, 'sync': draw(st.integers(0, 4)) > 0, 'expiration': draw(st.sampled_from(EXPIRATIONS))}
    if kind == 'input':
        cfg['initdef'] = draw(st.sampled_from([0, 'i', None]))
    elif kind == 'counter':
        cfg['modulo'] = draw(st.sampled_from([None, 5]))
        cfg['initdef'] = draw(st.sampled_from([0, 3]))
    elif kind == 'timer':
        cfg['kwargs'] = draw(st.sampled_from([{'t_on': 10, 't_off': 7}, {'t_on': 10}, {'t_period': 6}, {}]))
        cfg['restartable'] = draw(st.booleans())
    elif kind == 'inputexp':
        cfg['duration'] = draw(st.sampled_from([8, 3, 'INF']))
        cfg['expired'] = draw(st.sampled_from([None, 'X']))
        cfg['initdef'] = draw(st.sampled_from([None, 'I']))
    elif kind == 'fsm':
        desc = draw(fsmlab.fsm_desc(max_states=3, max_events=2, timers=True, chains=True))
        desc['steps'] = []
        desc['stop'] = 0.0
        # positive durations so that timers are pending at crash points
        for s, (dur, tev) in list(desc['timers'].items()):
            if dur in (0, -1, None):
                desc['timers'][s] = [draw(st.sampled_from([4, 9])), tev]
        # the machine must be able to start and run: no UNDEF outputs, a single chained request
        if isinstance(desc['outmap'], dict):
            desc['outmap'] = {k: (1 if v == 'U' else v) for k, v in desc['outmap'].items()}
        for s, script in desc['enter'].items():
            if isinstance(script, dict):
                script['times'] = 1
        probe = fsmlab.Model(dict(desc))
        results, _ = probe.run()
        if results == [['INITFAIL']] or probe.error:
            desc['enter'] = {s: ('log' if v else v) for s, v in desc['enter'].items()}
            desc['inst_t'] = {}
        cfg['desc'] = desc
    elif kind == 'timedate':
        cfg['times'] = draw(st.sampled_from([None, [[[11, 0], [13, 0]]], [[[12, 0, 30], [12, 1]]]]))
        cfg['weekdays'] = draw(st.sampled_from([None, [5], [1, 2]]))
    else:
        cfg['span'] = draw(st.sampled_from([[], [[[2024, 3, 1, 11, 0], [2024, 3, 1, 12, 0, 20]]],
                                            [[[2024, 3, 1, 12, 0, 5], [2024, 3, 2, 0, 0]]]]))
    return cfg


def step_for(draw, kind, cfg):
    if kind == 'input':
        # falsy values (None, 0, False, '') are states like any other
        return draw(st.sampled_from([['put', 1], ['put', 2], ['put', 'v'], ['bogus', 0], ['noparam', 0],
                                     ['put', 'boom'], ['put', None], ['put', None], ['put', 0], ['put', False],
                                     ['put', '']]))
    if kind == 'counter':
        return draw(st.sampled_from([['inc', 1], ['dec', 1], ['put', 7], ['put', 2], ['bogus', 0], ['noparam', 0],
                                     ['put', 'boom']]))
    if kind == 'timer':
        return draw(st.sampled_from([['start', None], ['stop', None], ['toggle', None], ['start', 2.5], ['bogus', 0]]))
    if kind == 'inputexp':
        return draw(st.sampled_from([['put', 1], ['put', 2], ['put_dur', 4], ['bogus', 0], ['put', 0], ['put', '']]))
    if kind == 'fsm':
        ev = draw(st.sampled_from(cfg['desc']['events'] + ['bogus']))
        return [ev, draw(st.sampled_from([None, 1, 0]))]
    if kind == 'timedate':
        return draw(st.sampled_from([['reconfig', {'times': [[[12, 0, 10], [12, 0, 40]]]}],
                                     ['reconfig', {'weekdays': [5]}], ['reconfig', {}], ['bogus', 0]]))
    return draw(st.sampled_from([['reconfig', {'span': [[[2024, 3, 1, 12, 0, 12], [2024, 3, 1, 12, 5]]]}],
                                 ['reconfig', {'span': []}], ['bogus', 0]]))


@st.composite
def cases(draw):
    kinds = draw(st.lists(st.sampled_from(KINDS + ['timer', 'inputexp', 'fsm']), min_size=1, max_size=3, unique=True))
    blocks = [draw(block_cfg(k)) for k in kinds]
    steps = []
    for _ in range(draw(st.integers(0, 8))):
        if draw(st.integers(0, 4)) == 0:
            steps.append({'op': 'wait', 'seconds': draw(st.sampled_from([0.5, 3, 6, 11]))})
        else:
            i = draw(st.integers(0, len(blocks) - 1))
            steps.append({'op': 'event', 'blk': i, 'ev': step_for(draw, kinds[i], blocks[i])})
    # a failing handler ends the run: keep at most the first one
    seen = False
    for s in steps:
        if s['op'] == 'event' and s['ev'][1] == 'boom':
            if seen or draw(st.integers(0, 2)) == 0:
                s['ev'] = [s['ev'][0], 1]
            else:
                seen = True
    nsnap = len(steps) + 3
    restarts = []
    for _ in range(draw(st.integers(1, 3))):
        downs = draw(st.lists(st.sampled_from([
            ['abs', 0], ['abs', 4], ['abs', 30], ['rem', -0.001], ['rem', 0.001], ['rem', -2],
            ['rem', 5], ['exp', -1], ['exp', 1]]), min_size=1, max_size=2, unique_by=str))
        if draw(st.integers(0, 9)) < 6:
            # both sides of the remaining timer / of the expiration
            pair = draw(st.sampled_from([[['rem', -0.001], ['rem', 0.001]], [['rem', -2], ['rem', 5]],
                                         [['exp', -1], ['exp', 1]]]))
            downs = [d for d in downs if d not in pair] + pair
        restarts.append({'snap': draw(st.integers(0, nsnap - 1)), 'downs': downs})
    return {'blocks': blocks, 'steps': steps,
            'pre': {'junk': draw(st.booleans()), 'edzed_key': draw(st.booleans()),
                    'stop_time': draw(st.sampled_from(['absent', 'valid', 'old', 'int', 'str']))},
            'end': draw(st.sampled_from(['stop', 'stop', 'stop', 'abort', 'failed_start'])),
            'slow_stop': draw(st.sampled_from([None, None, 2.5, 9.5])),
            # a restart that fails before the blocks are initialised (must leave the storage alone)
            'fail2': draw(st.sampled_from([None, 'start', 'service_task', 'cancel'])),
            'restarts': restarts}


def strategy(tier):
    return cases().map(lambda c: dict(c, all_snaps=(tier == 'thorough')))


# ---------------------------------------------------------------- circuit
class FailingStart(edzed.SBlock):
    def start(self):
        raise RuntimeError('start failed')

    def init_regular(self):
        self.set_output(0)


class SlowStop(edzed.AddonAsync, edzed.SBlock):
    """asynchronous clean-up that takes a while: the other blocks keep handling (timed) events"""
    def init_regular(self):
        self.set_output(0)

    async def stop_async(self):
        await asyncio.sleep(self.x_delay)


def _check(value):
    if value == 'boom':
        raise RuntimeError('check function failed')
    return True


def build(case, log, clock, failing_start=False, slow_stop=None):
    """-> {index: block}"""
    real = {}
    harness.Recorder('rec', x_log=[], x_hook=lambda rec: log.append(
        ('ev', rec['etype'], {k: fsmlab.vis(v) for k, v in rec['data'].items()}, clock())))
    for i, cfg in enumerate(case['blocks']):
        kind = cfg['kind']
        kw = {'persistent': True, 'sync_state': cfg['sync']}
        if cfg['expiration'] is not None:
            kw['expiration'] = cfg['expiration']
        if kind == 'input':
            if cfg['initdef'] is not None:
                kw['initdef'] = cfg['initdef']
            else:
                kw['initdef'] = 'fallback'
            blk = edzed.Input('input', check=_check, **kw)
        elif kind == 'counter':
            if cfg['modulo'] is not None:
                kw['modulo'] = cfg['modulo']
            blk = edzed.Counter('counter', initdef=cfg['initdef'], **kw)
        elif kind == 'timer':
            blk = edzed.Timer('timer', restartable=cfg['restartable'],
                              on_output=edzed.Event('rec', 'timer_out'), **cfg['kwargs'], **kw)
        elif kind == 'inputexp':
            if cfg['initdef'] is not None:
                kw['initdef'] = cfg['initdef']
            blk = edzed.InputExp('inputexp', duration=fsmlab.dur_real(cfg['duration']), expired=cfg['expired'],
                                 on_output=edzed.Event('rec', 'ie_out'), **kw)
        elif kind == 'fsm':
            desc = dict(cfg['desc'])
            desc['extra_kwargs'] = kw
            blk = fsmlab.build_fsm(desc, log, clock)
        elif kind == 'timedate':
            blk = edzed.TimeDate('timedate', times=cfg['times'], weekdays=cfg['weekdays'], **kw)
        else:
            blk = edzed.TimeSpan('timespan', span=cfg['span'], **kw)
        real[i] = blk
    if failing_start:
        FailingStart('failing')
    if slow_stop:
        SlowStop('slowstop', x_delay=slow_stop, stop_timeout=20)
    return real


def send(blk, kind, ev):
    """-> (outcome, fatal)"""
    etype, arg = ev
    try:
        if etype == 'bogus':
            r = edzed.ExtEvent(blk, 'no_such_event').send(1)
        elif etype == 'noparam':
            r = edzed.ExtEvent(blk, 'put').send()
        elif kind in ('input', 'counter'):
            if etype == 'put':
                r = edzed.ExtEvent(blk, 'put').send(arg)
            else:
                r = edzed.ExtEvent(blk, etype).send(amount=arg)
        elif kind == 'timer':
            r = edzed.ExtEvent(blk, etype).send(**({} if arg is None else {'duration': arg}))
        elif kind == 'inputexp':
            if etype == 'put_dur':
                r = edzed.ExtEvent(blk, 'put').send(9, duration=arg)
            else:
                r = edzed.ExtEvent(blk, 'put').send(arg)
        elif kind == 'fsm':
            r = edzed.ExtEvent(blk, etype).send(**({} if arg is None else {'ok': arg}))
        else:
            r = edzed.ExtEvent(blk, etype).send(**(arg if isinstance(arg, dict) else {}))
        return ['ret', repr(r)]
    except Exception as err:
        return ['exc', type(err).__name__]


def same_state(a, b, tol=2e-5):
    """deep equality; floats (timer expiry stamps) within tol"""
    if isinstance(a, float) and isinstance(b, float):
        return abs(a - b) <= tol
    if isinstance(a, (list, tuple)) and isinstance(b, (list, tuple)):
        return len(a) == len(b) and all(same_state(x, y, tol) for x, y in zip(a, b))
    if isinstance(a, dict) and isinstance(b, dict):
        return a.keys() == b.keys() and all(same_state(a[k], b[k], tol) for k in a)
    return type(a) is type(b) and a == b


def state_of(blk):
    try:
        return copy.deepcopy(blk.get_state())
    except Exception as err:
        return ['NOSTATE', type(err).__name__]


def run1(case):
    """-> dict(snaps=[...], errs=[...])"""
    out = {'snaps': [], 'errs': [], 'info': {}}

    async def scenario(loop):
        wall = loop.vwall
        harness.reset()
        circuit = edzed.get_circuit()
        t0 = loop.time()
        log = []
        real = build(case, log, lambda: loop.time() - t0, failing_start=case['end'] == 'failed_start',
                     slow_stop=case.get('slow_stop'))
        # state of each block right after every event it handled (instance-level instrumentation)
        handled = {i: [] for i in real}
        for i, b in real.items():
            def wrap(i=i, b=b, orig=b.event):
                depth = [0]

                def event(etype, /, **data):
                    depth[0] += 1
                    try:
                        r = orig(etype, **data)
                    finally:
                        depth[0] -= 1
                    if depth[0] == 0:       # only completed outermost events count
                        handled[i].append((loop.time(), state_of(b)))
                    return r
                return event
            b.event = wrap()
        storage = harness.DeepCopyDict()
        pre = case['pre']
        if pre['junk']:
            storage['junk'] = {'a': 1}
            storage["<Input 'gone'>"] = 5
        if pre['edzed_key']:
            storage['edzed-keep'] = 'kept'
        t_start = wall.peek_us() / 1e6
        if pre['stop_time'] == 'valid':
            storage['edzed-stop-time'] = t_start - 100.0
        elif pre['stop_time'] == 'old':
            storage['edzed-stop-time'] = t_start - 5000.0
        elif pre['stop_time'] == 'int':
            storage['edzed-stop-time'] = int(t_start) - 100
        elif pre['stop_time'] == 'str':
            storage['edzed-stop-time'] = 'yesterday'
        initial = storage.snapshot()
        out['info']['initial'] = initial
        circuit.set_persistent_data(storage)
        keys = {i: b.key for i, b in real.items()}
        out['info']['keys'] = keys
        disabled = set()        # blocks whose handler failed

        def snap(tag):
            out['snaps'].append({
                'tag': tag, 't': wall.peek_us() / 1e6, 'storage': storage.snapshot(),
                'states': {i: state_of(b) for i, b in real.items()},
                'outputs': {i: fsmlab.vis(b.output) for i, b in real.items()},
                'error': None if circuit.error is None else type(circuit.error).__name__})

        def check_sync(tag, after_init_storage):
            for i, b in real.items():
                cfg = case['blocks'][i]
                if circuit.error is not None and i not in disabled:
                    continue        # the simulation is stopping: the other blocks are saved and stopped
                stored = storage.snapshot().get(keys[i], 'MISSING')
                if i in disabled:
                    want = after_init_storage['frozen'].get(i)
                    if not same_state(stored, want):
                        out['errs'].append(('C06.written_after_handler_error',
                                            f"{tag}: {keys[i]} is {stored!r}, before the failing event {want!r}"))
                elif cfg['sync']:
                    if not same_state(stored, state_of(b)):
                        out['errs'].append(('C06.not_synced', f"{tag}: storage[{keys[i]}] = {stored!r}, "
                                            f"get_state() = {state_of(b)!r}"))
                else:
                    if not same_state(stored, after_init_storage['init'].get(keys[i], 'MISSING')):
                        out['errs'].append(('C06.written_without_sync', f"{tag}: storage[{keys[i]}] changed to "
                                            f"{stored!r} although sync_state is off"))

        sim = harness.Running()
        await sim.__aenter__()
        if sim.init_error is not None:
            out['info']['start_failed'] = type(circuit.error).__name__
            await sim.stop()
            out['info']['final'] = storage.snapshot()
            return
        ref = {'init': storage.snapshot(), 'frozen': {}}
        check_sync('after init', ref)
        snap('init')
        fatal = False
        for k, step in enumerate(case['steps']):
            if step['op'] == 'wait':
                await asyncio.sleep(step['seconds'])
                await harness.quiesce(loop)
                if circuit.error is not None:
                    fatal = True        # a timed event failed: the simulation is over
                    break
            else:
                i = step['blk']
                before = storage.snapshot().get(keys[i], 'MISSING')
                r = send(real[i], case['blocks'][i]['kind'], step['ev'])
                await harness.quiesce(loop)
                if circuit.error is not None:
                    fatal = True
                    disabled.add(i)
                    ref['frozen'][i] = before
            if circuit.error is not None and not fatal:
                fatal = True
            check_sync(f'after step {k} {step}', ref)
            snap(f'step {k}')
            if fatal:
                break
        out['info']['fatal'] = fatal
        pre_stop = {i: state_of(b) for i, b in real.items()}
        t_stop = wall.peek_us() / 1e6
        loop_stop = loop.time()
        if case['end'] == 'abort' and not fatal:
            circuit.abort(RuntimeError('abort'))
        await sim.stop()
        final = storage.snapshot()
        out['info']['final'] = final
        if case['end'] == 'stop' and not fatal:
            for i, b in real.items():
                # events (timers) handled while the asynchronous clean-up of another block was awaited
                later = [st_ for t, st_ in handled[i] if t > loop_stop]
                want = later[-1] if later and case['blocks'][i]['sync'] else pre_stop[i]
                if later:
                    out['info']['events_during_cleanup'] = True
                if not same_state(final.get(keys[i], 'MISSING'), want):
                    out['errs'].append(('C06.not_saved_at_stop', f"{keys[i]}: stored {final.get(keys[i], 'MISSING')!r}, "
                                        f"state {'after the last event handled during the clean-up' if later else 'before the stop'} {want!r}"))
            ts = final.get('edzed-stop-time')
            if not isinstance(ts, float) or abs(ts - t_stop) > 1e-3:
                out['errs'].append(('C06.stop_time', f"edzed-stop-time {ts!r}, wall clock at stop {t_stop!r}"))
        for i in disabled:
            if not same_state(final.get(keys[i], 'MISSING'), ref['frozen'][i]):
                out['errs'].append(('C06.written_after_handler_error',
                                    f"at stop: {keys[i]} is {final.get(keys[i], 'MISSING')!r}, before the failing "
                                    f"event {ref['frozen'][i]!r}"))
        out['snaps'].append({'tag': 'stopped', 't': wall.peek_us() / 1e6, 'storage': final,
                             'states': pre_stop, 'outputs': out['snaps'][-1]['outputs'],
                             'error': out['snaps'][-1]['error']})

    harness.run_case(scenario, wall_start=T0, read_latency_us=1)
    return out


def run2(case, storage_content, now2, watch):
    """restart at wall time now2 (unix seconds); -> observations"""
    out = {}

    async def scenario(loop):
        wall = loop.vwall
        harness.reset()
        circuit = edzed.get_circuit()
        t0 = loop.time()
        log = []
        real = build(case, log, lambda: loop.time() - t0)
        storage = harness.DeepCopyDict(storage_content or {})
        if storage_content is not None:
            storage['junk2'] = 1
            storage['edzed-other'] = 2
        circuit.set_persistent_data(storage)
        sim = harness.Running()
        await sim.__aenter__()
        if sim.init_error is not None:
            out['init_error'] = repr(circuit.error)
            await sim.stop()
            return
        out['keys'] = sorted(storage.snapshot())
        out['states'] = {i: state_of(b) for i, b in real.items()}
        out['outputs'] = {i: fsmlab.vis(b.output) for i, b in real.items()}
        out['init_log'] = list(log)
        out['timers'] = {}
        # watch the restored timers expire
        for i, (when, ) in sorted(watch.items(), key=lambda kv: kv[1][0]):
            # 'when' = absolute unix time of the saved expiry
            delay = when - wall.peek_us() / 1e6
            if delay > 0.01:
                await asyncio.sleep(delay - 0.005)
                before = state_of(real[i])
                await asyncio.sleep(0.01)
                await harness.quiesce(loop)
                after = state_of(real[i])
                if circuit.error is None:
                    out['timers'][i] = (before, after)
                # else: a timed event of some block failed meanwhile and ended the simulation
        await sim.stop()

    harness.run_case(scenario, wall_start=EPOCH + _dt.timedelta(microseconds=round(now2 * 1e6)),
                     read_latency_us=1)
    return out


def run2_other(storage_content, now2):
    """the storage attached to a circuit that has none of the old blocks and no persistent block at
    all; -> keys left after the start"""
    out = {}

    async def scenario(loop):
        harness.reset()
        circuit = edzed.get_circuit()
        edzed.Input('plain', initdef=0)
        edzed.Counter('volatile')
        storage = harness.DeepCopyDict(storage_content)
        storage['junk3'] = 3
        storage['edzed-mine'] = 4
        circuit.set_persistent_data(storage)
        async with harness.Running() as sim:
            if sim.init_error is not None:
                out['init_error'] = repr(circuit.error)
                return
            out['keys'] = sorted(storage.snapshot())

    harness.run_case(scenario, wall_start=EPOCH + _dt.timedelta(microseconds=round(now2 * 1e6)),
                     read_latency_us=1)
    return out


def run2_failed(case, storage_content, now2, mode):
    """a restart whose start-up fails before any block is initialised; -> storage afterwards"""
    out = {}

    async def scenario(loop):
        harness.reset()
        circuit = edzed.get_circuit()
        t0 = loop.time()
        build(case, [], lambda: loop.time() - t0, failing_start=(mode == 'start'))
        if mode == 'service_task':
            def broken():
                raise RuntimeError('sensor not connected')
            edzed.ValuePoll('svc', func=broken, interval=1, initdef=0)
        storage = harness.DeepCopyDict(storage_content)
        circuit.set_persistent_data(storage)
        task = asyncio.create_task(circuit.run_forever())
        await asyncio.sleep(0)
        if mode == 'cancel':
            task.cancel()       # delivered at the first suspension point of the simulation task
        try:
            await asyncio.wait_for(asyncio.shield(task), 100)
        except BaseException as err:
            out['result'] = type(err).__name__
        out['done'] = task.done()
        out['initialized'] = sorted(b.name for b in circuit.getblocks(edzed.SBlock)
                                    if b.is_initialized() and b.name not in ('rec', 'svc'))
        out['storage'] = storage.snapshot()
        if not task.done():
            task.cancel()

    harness.run_case(scenario, wall_start=EPOCH + _dt.timedelta(microseconds=round(now2 * 1e6)),
                     read_latency_us=1)
    return out


def timer_of(kind, state):
    """expiry stamp of an FSM-like state, else None"""
    if kind in ('timer', 'inputexp', 'fsm') and isinstance(state, (list, tuple)) and len(state) == 3:
        return state[1]
    return None


def execute(case):
    res = Result()
    r1 = run1(case)
    for clause, msg in r1['errs']:
        res.fail(clause, msg)
    info = r1['info']
    keys = info.get('keys', {})
    if case['end'] == 'failed_start':
        # nothing is written when start-up failed (unused keys are removed at start)
        want = {k: v for k, v in info['initial'].items()
                if k.startswith('edzed-') or k in set(keys.values())}
        if not same_state(info.get('final'), want):
            res.fail('C06.written_after_failed_start', f"storage {info.get('final')!r}, expected {want!r}")
        res.classes = ['failed start()']
        res.nontrivial = False
        return res
    if 'start_failed' in info:
        res.fail('C06.start_failed', f"run 1 did not start: {info['start_failed']}")
        return res
    snaps = r1['snaps']
    evals = 1
    both_sides = set()
    failed_restart_done = failed_restart_checked = False
    other_done = False
    tag_other = 'restart with other blocks: '
    exp_decided = False
    chosen = range(len(snaps)) if case.get('all_snaps') else sorted({r['snap'] % len(snaps) for r in case['restarts']})
    downs_for = {}
    for r in case['restarts']:
        downs_for.setdefault(r['snap'] % len(snaps), []).extend(r['downs'])
    default_downs = [['abs', 0], ['rem', -0.001], ['rem', 0.001], ['exp', -1], ['exp', 1]]
    for si in chosen:
        snap = snaps[si]
        stor = snap['storage']
        for spec in downs_for.get(si, default_downs):
            # resolve the downtime
            rems = [timer_of(case['blocks'][i]['kind'], stor.get(keys[i])) for i in keys]
            rems = [x - snap['t'] for x in rems if isinstance(x, float) and x > snap['t']]
            ts = stor.get('edzed-stop-time')
            exps = [exp_value(b['expiration']) for b in case['blocks']
                    if b['expiration'] is not None and exp_value(b['expiration']) > 0]
            if spec[0] == 'abs':
                down = spec[1]
            elif spec[0] == 'rem':
                if not rems:
                    continue
                down = max(0.0, min(rems) + spec[1])
            else:
                if not exps or not isinstance(ts, float):
                    continue
                down = max(0.0, ts + min(exps) - snap['t'] + spec[1])
            # no tie: the downtime must not come within 0.5 ms of any remaining timer / expiration
            critical = list(rems) + [ts + e - snap['t'] for e in exps if isinstance(ts, float)]
            while any(abs(down - c) < 0.0005 for c in critical):
                down += 0.0007
            now2 = snap['t'] + down
            watch = {}
            expect = {}
            for i, cfg in enumerate(case['blocks']):
                saved = stor.get(keys[i], 'MISSING')
                restore = saved != 'MISSING'
                e = exp_value(cfg['expiration'])
                if restore and e is not None:
                    if e <= 0:
                        restore = False
                    elif isinstance(ts, float) and ts + e < now2:
                        restore = False
                        exp_decided = True
                    elif isinstance(ts, float):
                        exp_decided = exp_decided or spec[0] == 'exp'
                tm = timer_of(cfg['kind'], saved) if restore else None
                if restore and tm is not None:
                    if tm - now2 <= 0:
                        restore = False
                        both_sides.add((si, i, 'expired'))
                    else:
                        watch[i] = (tm,)
                        both_sides.add((si, i, 'pending'))
                expect[i] = restore
            r2 = run2(case, stor, now2, watch)
            ctrl = run2(case, None, now2, {})
            evals += 2
            if not other_done:
                other_done = True
                ro = run2_other(stor, now2)
                evals += 1
                if 'init_error' in ro:
                    res.fail('C06.restart_failed', tag_other + ro['init_error'])
                else:
                    stale = [k for k in ro['keys'] if not k.startswith('edzed-')]
                    if stale:
                        res.fail('C06.unused_not_removed', f"storage attached to a circuit without the old blocks "
                                 f"(and without any persistent block): entries {stale} are still there")
                    if 'edzed-mine' not in ro['keys']:
                        res.fail('C06.reserved_removed', f"circuit without persistent blocks: keys {ro['keys']}")
            if case.get('fail2') and not failed_restart_done:
                failed_restart_done = True
                rf = run2_failed(case, stor, now2, case['fail2'])
                evals += 1
                watched = set(keys.values()) | {k for k in stor if k.startswith('edzed-')}
                after = {k: v for k, v in rf['storage'].items() if k in watched}
                before = {k: v for k, v in stor.items() if k in watched}
                if not rf.get('done'):
                    res.fail('C06.failed_start_hangs', f"restart with a failing start-up ({case['fail2']}) does not end")
                elif not rf['initialized'] and not same_state(after, before):
                    res.fail('C06.written_after_failed_start',
                             f"restart from snapshot {si} ({snap['tag']}) failing before the initialisation "
                             f"({case['fail2']}): storage {after!r}, before {before!r}")
                elif not rf['initialized']:
                    failed_restart_checked = True
            tag = f"restart from snapshot {si} ({snap['tag']}) after {down:.3f} s: "
            if 'init_error' in r2 or 'init_error' in ctrl:
                res.fail('C06.restart_failed', tag + str(r2.get('init_error') or ctrl.get('init_error')))
                continue
            if 'junk2' in r2['keys'] or 'junk' in r2['keys'] or "<Input 'gone'>" in r2['keys']:
                res.fail('C06.unused_not_removed', tag + f"keys {r2['keys']}")
            if 'edzed-other' not in r2['keys'] or ('edzed-keep' in stor and 'edzed-keep' not in r2['keys']):
                res.fail('C06.reserved_removed', tag + f"keys {r2['keys']}")
            for i, cfg in enumerate(case['blocks']):
                kind = cfg['kind']
                saved = stor.get(keys[i], 'MISSING')
                got = r2['states'][i]
                if expect[i]:
                    if not same_state(got, saved):
                        res.fail('C06.not_restored', tag + f"{keys[i]}: state {got!r}, saved {saved!r} "
                                 f"(expiration {cfg['expiration']!r}, stop time {ts!r}, now {now2!r})")
                        continue
                    if kind not in ('timedate', 'timespan') and snap['states'].get(i) is not None \
                            and same_state(snap['states'][i], saved) \
                            and r2['outputs'][i] != snap['outputs'][i]:
                        res.fail('C06.output_not_restored', tag + f"{keys[i]}: output {r2['outputs'][i]!r}, "
                                 f"at the crash point {snap['outputs'][i]!r}")
                    if kind == 'fsm':
                        ran = [e for e in r2['init_log'] if e[0] == 'hook' or (e[0] == 'ev' and e[1] == 'enter')]
                        if ran:
                            res.fail('C06.entry_actions_rerun', tag + f"{ran[:2]}")
                    if i in r2['timers']:
                        before, after = r2['timers'][i]
                        tb, ta = timer_of(kind, before), timer_of(kind, after)
                        if tb is None or abs(tb - watch[i][0]) > 2e-5:
                            res.fail('C06.timer_not_absolute', tag + f"{keys[i]}: 5 ms before the saved expiry "
                                     f"{watch[i][0]!r} the state is {before!r}")
                        elif ta is not None and abs(ta - watch[i][0]) <= 2e-5:
                            res.fail('C06.timer_not_fired', tag + f"{keys[i]}: 5 ms after the saved expiry the "
                                     f"state is still {after!r}")
                else:
                    want = ctrl['states'][i]
                    # a normal initialisation may start a timer relative to the new start
                    if not same_state(got, want, tol=0.01):
                        res.fail('C06.stale_state_used', tag + f"{keys[i]}: state {got!r}, normal initialisation gives "
                                 f"{want!r}; saved {saved!r} (expiration {cfg['expiration']!r}, stop time {ts!r}, "
                                 f"now {now2!r})")
    res.evals = evals
    pend = {(a, b) for a, b, c in both_sides if c == 'pending'}
    expd = {(a, b) for a, b, c in both_sides if c == 'expired'}
    res.nontrivial = bool(pend & expd) or exp_decided
    res.classes = [f"kind:{b['kind']}" for b in case['blocks']] + [f"end={case['end']}"]
    if pend & expd:
        res.classes.append('downtime on both sides of a remaining timer')
    if exp_decided:
        res.classes.append('expiration decided')
    if failed_restart_checked:
        res.classes.append('restart failing before the initialisation')
    if info.get('fatal'):
        res.classes.append('handler error in run 1')
    if info.get('events_during_cleanup'):
        res.classes.append('events handled during asynchronous clean-up')
    res.outcome = {'snapshots': len(snaps), 'restarts': (evals - 1) // 2}
    return res
