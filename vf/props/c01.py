"""C01 - combinational outputs agree with their inputs whenever the circuit is idle.

Generator: acyclic circuit descriptor (sources, CBlocks in a topological definition order,
creation order permutation, reference styles, event feedback CBlock -> SBlock) + bursts.
Oracle: idle invariant - every CBlock output == own f_kind(current outputs of its inputs),
recomputed from a snapshot of the real outputs; without feedback also source prediction.
"""
import itertools

from hypothesis import strategies as st

import edzed

from .. import harness
from ..runner import Result

ID = 'C01'
LEVEL = 'exploration'
BUDGET = {'quick': 2500, 'thorough': 12000}
RULE = ("Case = acyclic circuit of 1-4 Input/Counter sources and 1-8 library CBlocks (Not, And, Or, "
        "Xor, Override, Compare, FuncBlock with unpack on/off over positional groups, named singles "
        "and named groups) created in a generated order, inputs referenced by object, name, "
        "'_not_NAME' shortcut, Const or bare constant, optional CBlock->Counter/Input event "
        "feedback (on_output) into blocks that are not ancestors of the sender, and 1-6 bursts of "
        "1-4 back-to-back external events followed by quiesce. After wait_init() and after every "
        "burst a snapshot of all outputs is compared block by block with an independent function "
        "table. Non-trivial = circuit with depth >= 2 or reconvergent fan-out, and at least one "
        "burst that changed >= 1 source output and >= 1 CBlock output; distinct by descriptor.")
ASSUMPTIONS = [
    "outputs are compared with == (the simulator itself treats equal values as 'no change', so 1 "
    "may stand where True was computed); boolean gates must additionally yield type bool",
    "Compare fed directly by an externally driven source is checked against the exact hysteresis "
    "rule on successive idle values; fed by a CBlock or a feedback target only the documented "
    "envelope (x >= high -> True, x < low -> False) is required; at start-up an input exactly at "
    "the midpoint may give either value",
    "generated circuits keep a conservative bound on evaluations per burst within 3 x #blocks, so "
    "an instability error is never a legitimate outcome here (C10 covers the limit itself)",
    "nothing is asserted about values inside a burst or about the number of feedback events",
]

UNDEF = edzed.UNDEF
POOL = [False, True, 0, 1, 2, 3, -1, 1.5, None, 'x', '', (1,)]
NUM = list(range(8))            # indices of numeric pool members
ANY = list(range(len(POOL)))
BOOLGATES = ('Not', 'And', 'Or', 'Xor')
THRESHOLDS = [0, 1, 1.5, 2, 3]


# ---------------------------------------------------------------- reference functions
def f_kind(blk, pos, named):
    """my own definition of the library blocks; pos = list of values, named = {name: value|tuple}"""
    kind = blk['kind']
    if kind == 'Not':
        return not pos[0]
    if kind == 'And':
        r = True
        for v in pos:
            if not v:
                r = False
        return r
    if kind == 'Or':
        r = False
        for v in pos:
            if v:
                r = True
        return r
    if kind == 'Xor':
        return len([v for v in pos if v]) % 2 == 1
    if kind == 'Override':
        return named['input'] if named['override'] == POOL[blk['null']] else named['override']
    if kind == 'FSum':
        total = 0
        for v in pos:
            total = total + v
        return total
    if kind == 'FMax':
        best = 0
        for i, v in enumerate(pos):
            if i == 0 or v > best:
                best = v
        return best
    if kind == 'FSub':
        return named['a'] - named['b']
    if kind == 'FPack':
        packed = (tuple(pos), tuple(sorted(named.items())))
        # the 'typed' variant tells equal values of different types apart (True / 1, 0 / False)
        return repr(packed) if blk.get('typed') else packed
    if kind == 'FGe3':
        return pos[0] >= 3
    raise AssertionError(kind)


def _pack(*args, **kw):
    return (args, tuple(sorted(kw.items())))


def _pack1(args, **kw):
    return (tuple(args), tuple(sorted(kw.items())))


def _rpack(*args, **kw):
    return repr(_pack(*args, **kw))


def _rpack1(args, **kw):
    return repr(_pack1(args, **kw))


def _fsum(args):
    return sum(args)


def _fmax(*args):
    return max(args, default=0)


def _fsub(a, b):
    return a - b


# ---------------------------------------------------------------- structure helpers
def refs_of(blk):
    out = list(blk['pos'])
    for v in blk['named'].values():
        if v and isinstance(v[0], list):
            out.extend(v)
        elif v:
            out.append(v)
    return out


def is_group(v):
    """named value: a single ref ['blk',..] or a list of refs (possibly empty)"""
    return not v or isinstance(v[0], list)


def node_inputs(case):
    """{node: set(direct input nodes)} for CBlocks and inverters (block names only)"""
    g = {}
    for blk in case['cblocks']:
        ins = set()
        for r in refs_of(blk):
            if r[0] == 'blk':
                ins.add(r[1])
            elif r[0] == 'not':
                inv = '_not_' + r[1]
                ins.add(inv)
                g.setdefault(inv, {r[1]})
        g[blk['name']] = ins
    return g


def eval_bound(case):
    """conservative upper bound of block evaluations between two idle states, and #blocks"""
    g = node_inputs(case)
    fbsender = {b['fb']['name']: b['name'] for b in case['cblocks'] if b.get('fb')}
    srcs = {s['name'] for s in case['sources']}
    memo = {}

    def bound(node):
        if node in memo:
            return memo[node]
        memo[node] = 0      # acyclic by construction
        total = 1
        for i in g[node]:
            if i in srcs:
                continue
            if i in fbsender:
                total += bound(fbsender[i])
            else:
                total += bound(i)
        memo[node] = total
        return total

    def paths(node):
        if node in memo:
            return memo[node]
        total = 1 if any(i in srcs for i in g[node]) else 0
        for i in g[node]:
            if i not in srcs:
                total += paths(i)
        memo[node] = total
        return total

    nblocks = len(srcs) + len(fbsender) + len(g)
    if fbsender:
        return sum(bound(n) for n in g), nblocks
    plain = max(len(g), sum(paths(n) for n in g))
    if any(b.get('reset') for b in case['cblocks']):
        # the self-resetting counter changes once more while the circuit settles: a second wave
        return 2 * plain, nblocks
    return plain, nblocks


def depth_and_reconv(case):
    g = node_inputs(case)
    fb = {b['fb']['name'] for b in case['cblocks'] if b.get('fb')}
    srcs = {s['name'] for s in case['sources']} | fb
    depth, npaths = {}, {}

    def d(n):
        if n in srcs:
            return 0
        if n not in depth:
            depth[n] = 1 + max((d(i) for i in g[n]), default=0)
        return depth[n]

    def p(n):
        if n in srcs:
            return 1
        if n not in npaths:
            npaths[n] = sum(p(i) for i in g[n])
        return npaths[n]
    maxd = max((d(n) for n in g), default=0)
    reconv = any(p(n) > len(g[n]) and len(g[n]) >= 2 for n in g)
    return maxd, reconv


# ---------------------------------------------------------------- generator
@st.composite
def cases(draw):
    nsrc = draw(st.integers(1, 4))
    sources = []
    types = {}      # name -> 'num' | 'any'
    for i in range(nsrc):
        kind = draw(st.sampled_from(['InputNum', 'InputNum', 'InputAny', 'Counter']))
        if kind == 'Counter':
            init = draw(st.integers(0, 3))
        else:
            init = draw(st.sampled_from(NUM if kind == 'InputNum' else ANY))
        name = f's{i}'
        sources.append({'name': name, 'kind': kind, 'init': init})
        if kind != 'Counter' and draw(st.integers(0, 5)) == 0:
            # an output event that fails in a documented non-fatal way (unknown event type) for
            # falsy values; the caller of put gets the exception, the circuit must stay consistent
            sources[-1]['badevent'] = True
        types[name] = 'any' if kind == 'InputAny' else 'num'
    ncb = draw(st.integers(1, 8))
    diamond = draw(st.booleans())
    cblocks = []
    # template "self-resetting counter": a CBlock event changes the very source that feeds it
    selfreset = draw(st.integers(0, 3)) == 0
    if selfreset:
        sources.append({'name': 'r0', 'kind': 'CounterR', 'init': draw(st.integers(0, 2))})
        types['r0'] = 'num'
        cblocks.append({'name': 'rf', 'kind': 'FGe3', 'pos': [['blk', 'r0', 'name']], 'named': {},
                        'fb': None, 'reset': 'r0'})
        types['rf'] = 'num'
        types['_not_rf'] = 'num'
    # template "type pun": an Override whose output switches between equal values of different types
    # (True / 1, False / 0) in front of a function that tells them apart
    pun = not selfreset and draw(st.integers(0, 5)) == 0
    if pun:
        sources.append({'name': 'pa', 'kind': 'InputAny', 'init': draw(st.sampled_from([1, 0, 3, 2]))})
        sources.append({'name': 'pb', 'kind': 'InputAny', 'init': 8})
        types['pa'] = types['pb'] = 'any'
        cblocks.append({'name': 'pv', 'kind': 'Override', 'null': 8, 'pos': [], 'fb': None,
                        'named': {'input': ['blk', 'pa', 'obj'], 'override': ['blk', 'pb', 'name']}})
        cblocks.append({'name': 'pt', 'kind': 'FPack', 'unpack': True, 'typed': True, 'fb': None,
                        'pos': [['blk', 'pv', 'name']], 'named': {}})
        for n in ('pv', 'pt'):
            types[n] = 'any'
            types['_not_' + n] = 'num'
    avail = [s['name'] for s in sources] + (['rf'] if selfreset else []) + (['pv', 'pt'] if pun else [])

    def ref(need_num, usable):
        cands = [n for n in usable if not need_num or types[n] == 'num']
        r = draw(st.integers(0, 9))
        if r == 0 or not cands:
            idx = draw(st.sampled_from(NUM if need_num else ANY))
            must_wrap = isinstance(POOL[idx], (str, tuple))
            return ['const', idx, must_wrap or draw(st.booleans())]
        # prefer recent nodes (depth) and the diamond template
        if r <= 2:
            return ['not', draw(st.sampled_from(usable[-3:] if draw(st.booleans()) else usable))]
        name = draw(st.sampled_from(cands[-3:] if draw(st.booleans()) else cands))
        return ['blk', name, draw(st.sampled_from(['obj', 'name']))]

    for j in range(ncb):
        name = f'c{j}'
        usable = list(avail)
        kind = draw(st.sampled_from(
            ['Not', 'And', 'Or', 'Xor', 'And', 'Or', 'Xor', 'Override', 'Compare',
             'FSum', 'FMax', 'FSub', 'FPack', 'FPack']))
        blk = {'name': name, 'kind': kind, 'pos': [], 'named': {}, 'fb': None}
        if kind == 'Not':
            blk['pos'] = [ref(False, usable)]
            t = 'num'
        elif kind in ('And', 'Or', 'Xor'):
            n = draw(st.integers(0, 4))
            blk['pos'] = [ref(False, usable) for _ in range(n)]
            if diamond and j >= 2 and n >= 2:
                # reconvergence: two earlier blocks sharing an ancestor
                blk['pos'][0] = ['blk', f'c{j-1}', 'name']
                blk['pos'][1] = ['blk', f'c{j-2}', 'obj']
            t = 'num'
        elif kind == 'Override':
            blk['null'] = draw(st.sampled_from([8, 2, 9]))      # None, 0, 'x'
            blk['named'] = {'input': ref(False, usable), 'override': ref(False, usable)}
            t = 'any'
        elif kind == 'Compare':
            lo = draw(st.integers(0, len(THRESHOLDS) - 1))
            hi = draw(st.integers(lo, len(THRESHOLDS) - 1))
            blk['low'], blk['high'] = lo, hi
            blk['pos'] = [ref(True, usable)]
            t = 'num'
        elif kind in ('FSum', 'FMax'):
            n = draw(st.integers(0 if kind == 'FMax' else 1, 4))
            blk['pos'] = [ref(True, usable) for _ in range(n)]
            t = 'num'
        elif kind == 'FSub':
            blk['named'] = {'a': ref(True, usable), 'b': ref(True, usable)}
            t = 'num'
        else:   # FPack
            blk['unpack'] = draw(st.booleans())
            blk['typed'] = draw(st.integers(0, 2)) == 0
            blk['pos'] = [ref(False, usable) for _ in range(draw(st.integers(0, 3)))]
            for iname in draw(st.lists(st.sampled_from(['a', 'b', 'g', 'h']), unique=True, max_size=3)):
                if iname in ('g', 'h'):
                    blk['named'][iname] = [ref(False, usable) for _ in range(draw(st.integers(0, 3)))]
                else:
                    blk['named'][iname] = ref(False, usable)
            if not blk['pos'] and not blk['named']:
                blk['pos'] = [ref(False, usable)]
            if blk['typed'] and any(r[0] == 'const' and r[1] <= 3 for r in refs_of(blk)):
                # constants that compare equal (False / 0, True / 1) are one shared Const object in edzed
                # whichever was created first: the typed variant is used with unambiguous constants only
                blk['typed'] = False
            t = 'any'
        types[name] = t
        types['_not_' + name] = 'num'
        cblocks.append(blk)
        avail.append(name)
        # event feedback: a new source usable only by later blocks
        if not selfreset and draw(st.integers(0, 5)) == 0 and j < ncb - 1:
            fbkind = draw(st.sampled_from(['Counter', 'Input']))
            fbname = f'f{j}'
            blk['fb'] = {'name': fbname, 'kind': fbkind, 'num': t == 'num'}
            types[fbname] = 'num' if fbkind == 'Counter' else t
            avail.append(fbname)
    case = {'sources': sources, 'cblocks': cblocks}
    # keep the evaluation bound (construction, not rejection): drop trailing blocks
    while True:
        bound, nblocks = eval_bound(case)
        if bound <= 3 * nblocks or len(case['cblocks']) == (2 if selfreset or pun else 1):
            break
        case['cblocks'].pop()
    last = case['cblocks'][-1]
    if last.get('fb'):
        last['fb'] = None       # nobody could use it
    if eval_bound(case)[0] > 3 * eval_bound(case)[1]:
        # a single block with many inverters can not exceed the bound; defensive
        last['pos'] = last['pos'][:1]
    names = ([s['name'] for s in sources] + [b['name'] for b in case['cblocks']]
             + [b['fb']['name'] for b in case['cblocks'] if b.get('fb')])
    case['order'] = list(draw(st.permutations(names)))
    if draw(st.integers(0, 24)) == 0:
        # a big circuit: a long chain of inverters behind the first source (the first evaluation and
        # every reaction to a change take hundreds of evaluations, still one uninterrupted step)
        nz = draw(st.sampled_from([160, 420]))
        prev = sources[0]['name']
        chain = []
        for k in range(nz):
            case['cblocks'].append({'name': f'z{k}', 'kind': 'Not', 'pos': [['blk', prev, 'name']],
                                    'named': {}, 'fb': None})
            prev = f'z{k}'
            chain.append(prev)
        if draw(st.booleans()):
            chain.reverse()
        case['order'] = chain + case['order'] if draw(st.booleans()) else case['order'] + chain
    bursts = []
    for _ in range(draw(st.integers(1, 6))):
        burst = []
        for _ in range(draw(st.integers(1, 4))):
            s = draw(st.sampled_from(sources))
            if s['kind'] == 'CounterR':
                burst.append([s['name'], 'inc', draw(st.integers(1, 3))])
            elif s['kind'] == 'Counter':
                op = draw(st.sampled_from(['inc', 'dec', 'put']))
                burst.append([s['name'], op, draw(st.integers(0, 3))])
            elif s['name'] in ('pa', 'pb'):
                burst.append([s['name'], 'put', draw(st.sampled_from([8, 3, 2, 1, 0, 7]))])
            else:
                burst.append([s['name'], 'put',
                              draw(st.sampled_from(NUM if s['kind'] == 'InputNum' else ANY))])
        bursts.append(burst)
    case['bursts'] = bursts
    return case


def strategy(tier):
    return cases()


# ---------------------------------------------------------------- exhaustive sub-domain
def _euler_k4():
    """a closed walk using each of the 12 ordered pairs of 4 vertices once (Hierholzer)"""
    adj = {u: [v for v in range(4) if v != u] for u in range(4)}
    stack, walk = [0], []
    while stack:
        u = stack[-1]
        if adj[u]:
            stack.append(adj[u].pop())
        else:
            walk.append(stack.pop())
    return walk[::-1]


WALK = _euler_k4() + [3, 0, 1, 2, 1]        # + two-bit changes again (other send order)


def _pin_options(navail):
    nodes = ['s0', 's1'] + [f'c{i}' for i in range(navail - 2)]
    return [(n, inv) for n in nodes for inv in (False, True)]


def _block_options(j):
    """all blocks for position j: Not(1 pin), And/Or/Xor with 1 pin or an unordered pair"""
    pins = _pin_options(2 + j)
    out = [('Not', (p,)) for p in pins]
    for kind in ('And', 'Or', 'Xor'):
        out.extend((kind, (p,)) for p in pins)
        out.extend((kind, pq) for pq in itertools.combinations_with_replacement(pins, 2))
    return out


def _mk_exh_block(j, opt, salt):
    kind, pins = opt
    pos = []
    for k, (node, inv) in enumerate(pins):
        if inv:
            pos.append(['not', node])
        else:
            pos.append(['blk', node, 'obj' if (salt + j + k) % 2 else 'name'])
    return {'name': f'c{j}', 'kind': kind, 'pos': pos, 'named': {}, 'fb': None}


def exh_subcases(batch):
    """expand a batch descriptor to concrete cases"""
    size, i0, i1 = batch['exh']
    o0 = _block_options(0)
    bursts = []
    cur = 0
    flip = False
    seen2 = set()
    for nxt in WALK[1:]:
        burst = []
        bits = [(b, (nxt >> b) & 1) for b in (0, 1) if (nxt >> b) & 1 != (cur >> b) & 1]
        if len(bits) == 2:
            if (cur, nxt) in seen2:
                bits.reverse()
            seen2.add((cur, nxt))
        for b, v in bits:
            burst.append([f's{b}', 'put', 1 if v else 0])       # POOL[1]=True POOL[0]=False
        bursts.append(burst)
        cur = nxt
    sources = [{'name': 's0', 'kind': 'InputNum', 'init': 0}, {'name': 's1', 'kind': 'InputNum', 'init': 0}]
    if size == 1:
        combos = [(a,) for a in o0]
    elif size == 2:
        combos = [(o0[i0], b) for b in _block_options(1)]
    else:
        combos = [(o0[i0], _block_options(1)[i1], c) for c in _block_options(2)]
    for n, combo in enumerate(combos):
        blocks = [_mk_exh_block(j, opt, n) for j, opt in enumerate(combo)]
        names = ['s0', 's1'] + [b['name'] for b in blocks]
        # creation order: rotate so that it is not always topological
        rot = n % len(names)
        yield {'sources': sources, 'cblocks': blocks, 'order': names[rot:] + names[:rot],
               'bursts': bursts}


def exhaustive(tier):
    if tier != 'thorough':
        return None
    n0, n1 = len(_block_options(0)), len(_block_options(1))

    def gen():
        yield {'exh': [1, 0, 0]}
        for i0 in range(n0):
            yield {'exh': [2, i0, 0]}
        for i0 in range(n0):
            for i1 in range(n1):
                yield {'exh': [3, i0, i1]}
    return ("all topologies with <=3 CBlocks from {Not, And/Or/Xor with 1 or 2 inputs} over two "
            "boolean Inputs, every input pin either plain (object or name) or through the "
            "'_not_' shortcut, commutative inputs canonicalised; each topology is driven "
            "through all 4 input vectors and all 12 ordered vector-to-vector bursts (two-bit "
            "changes in both send orders)", gen())


# ---------------------------------------------------------------- executor
def build(case):
    """create the blocks in the descriptor's creation order; return {name: block}"""
    circuit = harness.reset()
    bydef = {s['name']: ('src', s) for s in case['sources']}
    for b in case['cblocks']:
        bydef[b['name']] = ('cb', b)
        if b.get('fb'):
            bydef[b['fb']['name']] = ('fb', b)
    blocks = {}

    def mkref(r):
        if r[0] == 'const':
            v = POOL[r[1]]
            return edzed.Const(v) if r[2] else v
        if r[0] == 'not':
            return '_not_' + r[1]
        if r[2] == 'obj' and r[1] in blocks:
            return blocks[r[1]]
        return r[1]

    if any(s.get('badevent') for s in case['sources']):
        edzed.Counter('snk')
    for name in case['order']:
        what, d = bydef[name]
        if what == 'src':
            if d['kind'] in ('Counter', 'CounterR'):
                blocks[name] = edzed.Counter(name, initdef=d['init'])
            else:
                kw = {}
                if d.get('badevent'):
                    kw['on_output'] = edzed.Event('snk', edzed.EventCond('inc', 'no_such_event'),
                                                  efilter=edzed.not_from_undef)
                blocks[name] = edzed.Input(name, initdef=POOL[d['init']], **kw)
            continue
        if what == 'fb':
            if d['fb']['kind'] == 'Counter':
                blocks[name] = edzed.Counter(name)
            else:
                # the initial value must fit the consumers' type (they may be evaluated first)
                blocks[name] = edzed.Input(name, initdef=0 if d['fb'].get('num') else 'FBINIT')
            continue
        kw = {}
        if d.get('fb'):
            kw['on_output'] = edzed.Event(
                d['fb']['name'], 'inc' if d['fb']['kind'] == 'Counter' else 'put')
        kind = d['kind']
        if d.get('reset'):
            kw['on_output'] = edzed.Event(d['reset'], edzed.EventCond('reset', None))
        if kind == 'FGe3':
            blk = edzed.FuncBlock(name, func=lambda x: x >= 3, **kw)
        elif kind in ('Not', 'And', 'Or', 'Xor'):
            blk = getattr(edzed, kind)(name, **kw)
        elif kind == 'Override':
            blk = edzed.Override(name, null_value=POOL[d['null']], **kw)
        elif kind == 'Compare':
            blk = edzed.Compare(name, low=THRESHOLDS[d['low']], high=THRESHOLDS[d['high']], **kw)
        elif kind == 'FSum':
            blk = edzed.FuncBlock(name, func=_fsum, unpack=False, **kw)
        elif kind == 'FMax':
            blk = edzed.FuncBlock(name, func=_fmax, **kw)
        elif kind == 'FSub':
            blk = edzed.FuncBlock(name, func=_fsub, **kw)
        else:
            if d.get('typed'):
                func = _rpack if d['unpack'] else _rpack1
            else:
                func = _pack if d['unpack'] else _pack1
            blk = edzed.FuncBlock(name, func=func, unpack=d['unpack'], **kw)
        args = [mkref(r) for r in d['pos']]
        kwargs = {k: ([mkref(r) for r in v] if is_group(v) else mkref(v))
                  for k, v in d['named'].items()}
        if args or kwargs:
            blk.connect(*args, **kwargs)
        blocks[name] = blk
    return circuit, blocks


def run_circuit(case):
    """-> list of snapshots ({name: output}), error repr or None, inverter census"""
    snaps = []
    info = {}

    async def scenario(loop):
        circuit, blocks = build(case)
        async with harness.Running() as sim:
            if sim.init_error is not None:
                info['init_error'] = repr(circuit.error)
                return
            snaps.append({b.name: b.output for b in circuit.getblocks() if b.name != 'snk'})
            for burst in case['bursts']:
                for name, etype, arg in burst:
                    blk = blocks[name]
                    if isinstance(blk, edzed.Counter):
                        if etype == 'put':
                            edzed.ExtEvent(blk, 'put').send(arg)
                        else:
                            edzed.ExtEvent(blk, etype).send(amount=arg)
                    else:
                        try:
                            edzed.ExtEvent(blk, 'put').send(POOL[arg])
                        except edzed.EdzedUnknownEvent:
                            info['nonfatal'] = info.get('nonfatal', 0) + 1      # from the 'badevent' output event
                await harness.quiesce(loop)
                if circuit.error is not None:
                    info['error'] = repr(circuit.error)
                    return
                snaps.append({b.name: b.output for b in circuit.getblocks() if b.name != 'snk'})
            info['inverters'] = sorted(
                (b.name, tuple(i.name for i in b.iconnections))
                for b in circuit.getblocks(edzed.Not) if b.name.startswith('_not_'))
            info['nblocks'] = len(list(circuit.getblocks()))
    harness.run_case(scenario)
    return snaps, info


def check_snapshots(case, snaps, res, tagbase=''):
    """idle invariant on every snapshot; returns per-burst (source_changed, cblock_changed)"""
    fbnames = {b['fb']['name'] for b in case['cblocks'] if b.get('fb')}
    extsrc = {s['name'] for s in case['sources']}
    volatile = {b['reset'] for b in case['cblocks'] if b.get('reset')}     # changes while settling
    cmp_prev = {}
    activity = []

    def val(r, snap):
        if r[0] == 'const':
            return POOL[r[1]]
        if r[0] == 'not':
            return snap['_not_' + r[1]]
        return snap[r[1]]

    for k, snap in enumerate(snaps):
        tag = f"{tagbase}snapshot {k} ({'after wait_init' if k == 0 else f'after burst {k}'})"
        for name, out in snap.items():
            if out is UNDEF:
                res.fail('C01.undef_output', f"{tag}: {name} is UNDEF")
                return activity
        for blk in case['cblocks']:
            name = blk['name']
            got = snap[name]
            pos = [val(r, snap) for r in blk['pos']]
            named = {key: (tuple(val(r, snap) for r in v) if is_group(v) else val(v, snap))
                     for key, v in blk['named'].items()}
            if blk['kind'] == 'Compare':
                lo, hi = THRESHOLDS[blk['low']], THRESHOLDS[blk['high']]
                x = pos[0]
                r0 = blk['pos'][0]
                exact = r0[0] == 'const' or (r0[0] == 'blk' and r0[1] in extsrc and r0[1] not in volatile)
                if x >= hi:
                    allowed = {True}
                elif x < lo:
                    allowed = {False}
                elif not exact:
                    allowed = {True, False}
                else:
                    prev = cmp_prev.get(name, UNDEF)
                    if prev is UNDEF:
                        mid = (lo + hi) / 2
                        allowed = {True, False} if x == mid else {x > mid}
                    else:
                        allowed = {prev}
                if type(got) is not bool or got not in allowed:
                    res.fail('C01.compare', f"{tag}: {name} low={lo} high={hi} input={x!r} "
                             f"previous={cmp_prev.get(name, UNDEF)!r}: output {got!r}, "
                             f"allowed {sorted(allowed)}")
                cmp_prev[name] = got
                continue
            try:
                exp = f_kind(blk, pos, named)
            except Exception as err:    # generator type discipline broken -> harness problem
                raise AssertionError(f"reference function failed for {blk}: {err!r}")
            if not (got == exp) or (blk['kind'] in BOOLGATES and type(got) is not bool):
                res.fail('C01.idle_invariant',
                         f"{tag}: {name} ({blk['kind']}) output {got!r}, inputs pos={pos!r} "
                         f"named={named!r} => expected {exp!r}")
        for name, out in snap.items():
            if name.startswith('_not_'):
                src = snap[name[5:]]
                if out is not (not src):
                    res.fail('C01.inverter', f"{tag}: {name} is {out!r}, {name[5:]} is {src!r}")
        # feedback Input holds the sender's current output
        for blk in case['cblocks']:
            if blk.get('fb') and blk['fb']['kind'] == 'Input':
                if not (snap[blk['fb']['name']] == snap[blk['name']]):
                    res.fail('C01.feedback_value',
                             f"{tag}: {blk['fb']['name']} holds {snap[blk['fb']['name']]!r} but its "
                             f"sender {blk['name']} outputs {snap[blk['name']]!r}")
        if k > 0:
            prev = snaps[k - 1]
            activity.append((
                any(not (prev[n] == snap[n]) for n in extsrc),
                any(not (prev[b['name']] == snap[b['name']]) for b in case['cblocks'])))
    # the self-resetting counter is below 3 whenever the circuit is idle
    for name in volatile:
        for k, snap in enumerate(snaps):
            if not (0 <= snap[name] < 3):
                res.fail('C01.self_reset', f"snapshot {k}: counter {name} is {snap[name]!r} although its reset event "
                         "is due at 3")
    # without feedback the sources are predictable
    if not fbnames and not volatile:
        cur = {}
        for s in case['sources']:
            cur[s['name']] = s['init'] if s['kind'] == 'Counter' else POOL[s['init']]
        for k, snap in enumerate(snaps):
            if k > 0:
                for name, etype, arg in case['bursts'][k - 1]:
                    if etype == 'inc':
                        cur[name] += arg
                    elif etype == 'dec':
                        cur[name] -= arg
                    elif any(s['name'] == name and s['kind'] == 'Counter' for s in case['sources']):
                        cur[name] = arg
                    else:
                        cur[name] = POOL[arg]
            for name, v in cur.items():
                if not (snap[name] == v):
                    res.fail('C01.source_value', f"snapshot {k}: source {name} is {snap[name]!r}, "
                             f"expected {v!r}")
    return activity


def execute_one(case, res, tagbase=''):
    snaps, info = run_circuit(case)
    if 'init_error' in info:
        res.fail('C01.init_failed', f"{tagbase}valid acyclic circuit failed to start: {info['init_error']}")
        return False
    if 'error' in info:
        res.fail('C01.simulation_error', f"{tagbase}{info['error']} after {len(snaps)} snapshots")
    activity = check_snapshots(case, snaps, res, tagbase)
    if 'inverters' in info:
        want = sorted({'_not_' + r[1] for b in case['cblocks'] for r in refs_of(b) if r[0] == 'not'})
        have = [n for n, _ in info['inverters']]
        if have != want:
            res.fail('C01.inverter_census', f"{tagbase}inverters {have}, expected {want}")
        for n, ins in info['inverters']:
            if ins != (n[5:],):
                res.fail('C01.inverter_wiring', f"{tagbase}{n} is fed by {ins}")
    return any(a and b for a, b in activity)


def execute(case):
    res = Result()
    if 'exh' in case:
        res.evals = 0
        for n, sub in enumerate(exh_subcases(case)):
            res.evals += 1
            before = len(res.violations)
            active = execute_one(sub, res, tagbase=f"[sub-case {n}: {[(b['kind'], b['pos']) for b in sub['cblocks']]}] ")
            if len(res.violations) > before:
                break
            maxd, reconv = depth_and_reconv(sub)
            if active and (maxd >= 2 or reconv):
                res.nt_count += 1
        res.classes = [f"exhaustive batch size {case['exh'][0]}"]
        return res
    active = execute_one(case, res)
    maxd, reconv = depth_and_reconv(case)
    res.nontrivial = active and (maxd >= 2 or reconv)
    has_fb = any(b.get('fb') or b.get('reset') for b in case['cblocks'])
    res.classes = [f'depth {min(maxd, 5)}{"+" if maxd >= 5 else ""}']
    if reconv:
        res.classes.append('reconvergent')
    if has_fb:
        res.classes.append('event feedback')
    if any(r[0] == 'not' for b in case['cblocks'] for r in refs_of(b)):
        res.classes.append('shortcut')
    if any(is_group(v) for b in case['cblocks'] for v in b['named'].values()):
        res.classes.append('named group')
    if any(len(b) >= 2 for b in case['bursts']):
        res.classes.append('burst with >=2 events')
    if any(s.get('badevent') for s in case['sources']):
        res.classes.append('non-fatally failing output event')
    res.outcome = {'cblocks': len(case['cblocks']), 'active_burst': active}
    return res
