"""C18 - Repeat re-sends the latest event at the configured pace and count.

Generator: 1-2 chained Repeat stages (explicit blocks or the implicit Event(..., repeat=)),
entry through ExtEvent or through an Input's on_output, arrivals on a half-unit grid placed
before / exactly at / after repetition instants, stop instant.
Oracle: non-deterministic reference model (a tie between an arrival and a repetition
instant is a legal schedule in both orders), explored depth-first and pruned with the
observed log.
"""
from hypothesis import strategies as st

import edzed

from .. import harness
from ..runner import Result

ID = 'C18'
LEVEL = 'exploration'
BUDGET = {'quick': 2500, 'thorough': 15000}
RULE = ("Case = chain of 1-2 Repeat stages (interval 2 or 3 s given as number or string, count in "
        "{None,0,1,3}, event type 'put' or 'go'), created explicitly or implicitly by "
        "Event(..., repeat=, count=), fed by ExtEvents (with extra data items and custom source) "
        "or by an Input's on_output; <=5 arrivals on a 0.5 s grid (matching and non-matching "
        "types, simultaneous arrivals), stop instant on the grid, then 5 more intervals of "
        "observation. The destination log (instant, type, complete data) must equal one of the "
        "sequences admitted by the reference model. Non-trivial = >=2 matching arrivals with one "
        "of them within half a second of a repetition instant of its predecessor (before, at or "
        "after) and >=1 repetition actually sent; distinct by descriptor.")
ASSUMPTIONS = [
    "an arrival (or the stop) at exactly the instant of a repetition may be served in either "
    "order by the event loop; the model admits both outcomes (DESIGN 2.1)",
    "stop_timeout <= 0 (documented opt-out of the asynchronous clean-up) is not generated",
]

UNDEF = edzed.UNDEF
INF = float('inf')
INTERVALS = [[2, 2], [3, 3], [2, '2s'], [3, '0m3s'], [2, '0h0m2.0s']]


# ---------------------------------------------------------------- generator
@st.composite
def cases(draw):
    nstages = draw(st.sampled_from([1, 1, 2]))
    stages = []
    for _ in range(nstages):
        stages.append({'interval': draw(st.sampled_from(INTERVALS)),
                       'count': draw(st.sampled_from([None, 0, 1, 3]))})
    entry = draw(st.sampled_from(['ext', 'ext', 'input']))
    implicit = entry == 'input' or draw(st.booleans())     # first stage made by Event(repeat=)
    if entry == 'ext':
        implicit = False            # an ExtEvent needs a named destination block
    etype = draw(st.sampled_from(['put', 'put', 'go'])) if entry == 'ext' else 'put'
    case = {'stages': stages, 'entry': entry, 'implicit_first': implicit, 'etype': etype,
            'not_from_undef': entry == 'input' and draw(st.booleans())}
    if entry == 'input' and draw(st.booleans()):
        # a filter in front of the (implicit) Repeat that strips data items, 'source' among them
        case['strip'] = draw(st.sampled_from(['source', 'permit_value', 'previous']))
    # arrivals relative to the repetition instants of the previous arrival
    interval = stages[0]['interval'][0]
    arrivals = []
    t = 0.0
    for n in range(draw(st.integers(0, 5))):
        mode = draw(st.sampled_from(['rel', 'rel', 'grid', 'same']))
        if mode == 'rel':
            k = draw(st.integers(1, 3))
            t = t + k * interval + draw(st.sampled_from([-0.5, 0.0, 0.0, 0.5]))
        elif mode == 'grid':
            t = t + draw(st.integers(0, 14)) * 0.5
        if entry == 'ext':
            et = draw(st.sampled_from([etype, etype, etype, 'other']))
            arrivals.append({'t': max(t, 0.5), 'etype': et, 'value': n + 1,
                             'source': draw(st.sampled_from([None, 'drv', '_ext_x'])),
                             'extra': draw(st.sampled_from([None, 'x']))})
        else:
            # an Input sends only changes; values may repeat
            arrivals.append({'t': max(t, 0.5), 'value': draw(st.integers(1, 3))})
        t = arrivals[-1]['t']
    case['arrivals'] = arrivals
    last = arrivals[-1]['t'] if arrivals else 0.0
    case['stop'] = draw(st.sampled_from([
        last + 0.5, last + interval, last + interval + 0.5, last + 2 * interval,
        last + 7.5, 4.0, 20.0]))
    return case


# a destination whose handler blocks the event loop for a while during one delivery (a slow synchronous
# handler): the pace is 'interval' seconds between deliveries, lost time is not made up by a burst
stall_cases = st.builds(
    lambda i, c, j, s, e: {'k': 'stall', 'interval': i, 'count': c, 'stall_at': j, 'stall': s, 'extra': e},
    st.sampled_from([2, 3]), st.sampled_from([None, 3, 5, 6]), st.integers(0, 3),
    st.sampled_from([0.5, 2.5, 3.0, 4.5, 7.0, 13.0]), st.integers(2, 5))


def strategy(tier):
    return st.one_of(cases(), cases(), cases(), cases(), stall_cases)


def exec_stall(case):
    res = Result()
    log = []
    info = {}
    interval, count, j, stall = case['interval'], case['count'], case['stall_at'], case['stall']
    # expected deliveries (repeat number, time); the series is observed for 'extra' more intervals
    expected = []
    t = 0.5
    k = 0
    nmax = j + case['extra']
    while k <= nmax and (count is None or k <= count):
        expected.append((k, t))
        t += interval + (stall if k == j else 0.0)
        k += 1
    stop = expected[-1][1] + (stall if expected[-1][0] == j else 0.0) + 0.25

    async def scenario(loop):
        harness.reset()
        circuit = edzed.get_circuit()
        t0 = loop.time()

        def hook(rec_):
            log.append((rec_['data'].get('repeat'), loop.time() - t0))
            if rec_['data'].get('repeat') == j:
                loop.vclock.advance(stall)       # the handler takes that long
        rec = harness.Recorder('rec', x_log=[], x_hook=hook)
        rp = edzed.Repeat('rp0', dest=rec, etype='put', interval=interval, count=count)
        async with harness.Running() as sim:
            if sim.init_error is not None:
                info['init_error'] = repr(circuit.error)
                return
            await harness.vloop.sleep_until(loop, t0 + 0.5)
            edzed.ExtEvent(rp, 'put').send(1)
            await harness.vloop.sleep_until(loop, t0 + stop)
            info['error'] = repr(circuit.error) if circuit.error is not None else None
            info['output'] = rp.output

    harness.run_case(scenario)
    if 'init_error' in info:
        res.fail('C18.init_failed', info['init_error'])
        return res
    if info.get('error'):
        res.fail('C18.simulation_error', info['error'])
    got = [(k, round(t, 6)) for k, t in log]
    want = [(k, round(t, 6)) for k, t in expected]
    # 'every interval seconds': the time a handler takes may or may not be added to the interval (the
    # slowest admissible schedule is 'want'), but two deliveries are never closer than the interval
    problem = None
    if [k for k, _ in got] != list(range(len(got))):
        problem = 'numbering'
    elif len(got) < len(want) or (count is not None and len(got) > count + 1):
        problem = 'number of deliveries'
    elif got and abs(got[0][1] - 0.5) > 1e-3:
        problem = 'first delivery'
    else:
        for (k0, a), (k1, b) in zip(got, got[1:]):
            longest = interval + (stall if k0 == j else 0.0)
            if b - a < interval - 1e-3 or b - a > longest + 1e-3:
                problem = f'gap {round(b - a, 6)} s between repetitions {k0} and {k1}'
                break
    if problem:
        res.fail('C18.pace', f"interval {interval}, count {count}, delivery {j} takes {stall} s: {problem}; "
                 f"deliveries (repeat, time) {got}; slowest admissible schedule {want}")
    elif info.get('output') != got[-1][0]:
        res.fail('C18.output', f"output {info.get('output')}, last repeat number {got[-1][0]}")
    res.nontrivial = stall > interval and len(expected) > j + 1
    res.classes = ['slow destination handler', 'stall longer than the interval' if stall > interval
                   else 'stall shorter than the interval']
    res.outcome = {'deliveries': len(got)}
    return res


# ---------------------------------------------------------------- reference model
def source_arrivals(case):
    """the events reaching the first stage: [(t, data)] in arrival order"""
    etype = case['etype']
    out = []
    if case['entry'] == 'ext':
        for a in case['arrivals']:
            if a['t'] >= case['stop'] or a['etype'] != etype:
                continue
            data = {'value': a['value']}
            if a['extra'] is not None:
                data['extra'] = a['extra']
            src = a['source']
            data['source'] = '_ext_' if src is None else (src if src.startswith('_ext_') else '_ext_' + src)
            out.append((a['t'], data))
    else:
        cur = UNDEF
        seq = [{'t': 0.0, 'value': 0}] + [a for a in case['arrivals'] if a['t'] < case['stop']]
        for a in seq:
            if cur is UNDEF or cur != a['value']:
                if not (cur is UNDEF and case['not_from_undef']):
                    data = {'value': a['value'], 'previous': cur, 'trigger': 'output', 'source': 'src'}
                    strip = case.get('strip')
                    if strip == 'permit_value':
                        data = {'value': a['value']}
                    elif strip is not None:
                        del data[strip]
                    out.append((a['t'], data))
                cur = a['value']
    return out


def match_log(case, names, got):
    """Guided non-deterministic simulation of the Repeat chain.

    At one virtual instant the atomic actions "next arrival from the source (forwarded through
    all stages at once)" and "repetition due in stage s (forwarded through the later stages)" may
    happen in any order; a repetition whose stage has meanwhile received a newer event is void.
    Every action emits exactly one entry at the destination, so a branch is abandoned at its
    first disagreement with the observed log.
    -> (set of admissible final outputs per stage, number of branching points, longest matched prefix)"""
    etype = case['etype']
    stages = case['stages']
    n = len(stages)
    arrivals = source_arrivals(case)
    stop = case['stop']
    finals = set()
    stats = {'branch': 0, 'best': 0, 'expected': None}

    def emit_ok(pos, t, data):
        if pos >= len(got):
            return False
        return same_log([got[pos]], [(t, etype, data)])

    def forward(state, s, t, data, rep):
        """stage s sends (data, rep) onwards; returns the entry arriving at the destination"""
        d = dict(data)
        d['orig_source'] = data.get('source')
        d['source'] = names[s]
        d['repeat'] = rep
        for j in range(s + 1, n):
            # the next stage forwards at once with repeat 0 and restarts its own repetitions
            state[j] = (d, t, 1)
            state['last'][j] = 0
            d2 = dict(d)
            d2['orig_source'] = d.get('source')
            d2['source'] = names[j]
            d2['repeat'] = 0
            d = d2
        return d

    def rep_time(state, s):
        cur = state[s]
        if cur is None:
            return None
        data, t0, k = cur
        cnt = stages[s]['count']
        if cnt is not None and k > cnt:
            return None
        return t0 + k * stages[s]['interval'][0]

    def search(state, ai, pos):
        while True:
            stats['best'] = max(stats['best'], pos)
            times = [(rep_time(state, s), s) for s in range(n)]
            times = [(t, s) for t, s in times if t is not None]
            ta = arrivals[ai][0] if ai < len(arrivals) else None
            cands = [t for t, _ in times] + ([ta] if ta is not None else [])
            cands = [t for t in cands if t <= stop + 1e-9]
            if not cands:
                if pos == len(got):
                    finals.add(tuple(state['last'][s] for s in range(n)))
                else:
                    stats['expected'] = 'END'
                return
            now = min(cands)
            actions = [('R', s) for t, s in times if abs(t - now) <= 1e-9]
            if ta is not None and abs(ta - now) <= 1e-9:
                actions.append(('A', None))
            at_stop = abs(now - stop) <= 1e-9
            if at_stop:
                actions.append(('STOP', None))      # a repetition due exactly at the stop may not happen
            if len(actions) > 1:
                stats['branch'] += 1
            if len(actions) == 1:
                act = actions[0]
                nxt = apply(state, ai, pos, act, now, copy_state=False)
                if nxt is None:
                    return
                state, ai, pos = nxt
                continue
            for act in actions:
                nxt = apply(state, ai, pos, act, now, copy_state=True)
                if nxt is not None:
                    search(*nxt)
            return

    def apply(state, ai, pos, act, now, copy_state):
        if act[0] == 'STOP':
            if pos == len(got):
                finals.add(tuple(state['last'][s] for s in range(n)))
            return None
        if copy_state:
            state = {k: (dict(v) if k == 'last' else v) for k, v in state.items()}
        if act[0] == 'A':
            t, data = arrivals[ai]
            state[0] = (data, t, 1)
            state['last'][0] = 0
            entry = forward(state, 0, t, data, 0)
            ai += 1
        else:
            s = act[1]
            data, t0, k = state[s]
            state[s] = (data, t0, k + 1)
            state['last'][s] = k
            entry = forward(state, s, now, data, k)
        if not emit_ok(pos, now, entry):
            if pos >= stats['best']:
                stats['expected'] = (now, etype, entry)
            return None
        return state, ai, pos + 1

    init = {s: None for s in range(n)}
    init['last'] = {s: 0 for s in range(n)}
    search(init, 0, 0)
    return finals, stats


# ---------------------------------------------------------------- executor
def execute(case):
    if case.get('k') == 'stall':
        return exec_stall(case)
    res = Result()
    log = []
    info = {}

    async def scenario(loop):
        harness.reset()
        circuit = edzed.get_circuit()
        t0 = [None]
        stages = case['stages']
        reps = [None] * len(stages)

        def hook(rec_):
            rec_['t'] = loop.time() - t0[0] if t0[0] is not None else 0.0
            rec_['out'] = [r.output for r in reps]
        rec = harness.Recorder('rec', x_log=log, x_hook=hook)
        etype = case['etype']
        # build from the last stage to the first one
        dest = rec
        for n in range(len(stages) - 1, 0, -1):
            dest = edzed.Repeat(f'rp{n}', dest=dest if n % 2 else dest.name, etype=etype,
                                interval=stages[n]['interval'][1], count=stages[n]['count'])
            reps[n] = dest
        first = stages[0]
        src = None
        if case['entry'] == 'input':
            flt = [edzed.not_from_undef] if case['not_from_undef'] else []
            strip = case.get('strip')
            if strip == 'permit_value':
                flt.append(edzed.DataEdit.permit('value'))
            elif strip is not None:
                flt.append(edzed.DataEdit.delete(strip))
            flt = flt or None
            src = edzed.Input('src', initdef=0, on_output=edzed.Event(
                dest, etype, efilter=flt, repeat=first['interval'][1], count=first['count']))
            reps[0] = next(b for b in circuit.getblocks(edzed.Repeat) if b.name.startswith('_'))
        else:
            reps[0] = edzed.Repeat('rp0', dest=dest, etype=etype,
                                   interval=first['interval'][1], count=first['count'])
        info['names'] = [r.name for r in reps]
        t0[0] = loop.time()
        sim = harness.Running()
        await sim.__aenter__()
        if sim.init_error is not None:
            info['init_error'] = repr(circuit.error)
            await sim.stop()
            return
        returns = []
        for a in case['arrivals']:
            if a['t'] >= case['stop']:
                break
            await harness.vloop.sleep_until(loop, t0[0] + a['t'])
            if not circuit.is_ready():
                break
            if case['entry'] == 'input':
                edzed.ExtEvent(src).send(a['value'])
            else:
                kw = {}
                if a['extra'] is not None:
                    kw['extra'] = a['extra']
                if a['source'] is not None:
                    kw['source'] = a['source']
                # an event type that is equal to the configured one without being the same object
                # (decoded from a message, read from a file, ...)
                et = a['etype'].encode('ascii').decode('ascii') if a['value'] % 2 else a['etype']
                returns.append(edzed.ExtEvent(reps[0], et).send(a['value'], **kw))
        await harness.vloop.sleep_until(loop, t0[0] + case['stop'])
        info['error_before_stop'] = repr(circuit.error) if circuit.error is not None else None
        info['finals'] = tuple(r.output for r in reps)
        err = await sim.stop()
        info['stop_error'] = repr(err) if err is not None else None
        info['finals_after_stop'] = tuple(r.output for r in reps)
        info['n_at_stop'] = len(log)
        await harness.vloop.sleep_until(
            loop, loop.time() + 5 * max(s['interval'][0] for s in stages) + 1)
        await harness.quiesce(loop)
        info['n_later'] = len(log)
        info['pending'] = [t.get_name() for t in __import__('asyncio').all_tasks(loop)
                           if t is not __import__('asyncio').current_task() and not t.done()]

    harness.run_case(scenario)

    if 'init_error' in info:
        res.fail('C18.init_failed', info['init_error'])
        return res
    if info['error_before_stop'] is not None or info['stop_error'] is not None:
        res.fail('C18.simulation_error', info['error_before_stop'] or info['stop_error'])
    got = [(r['t'], r['etype'], r['data']) for r in log[:info['n_at_stop']]]
    ok_finals, stats = match_log(case, info['names'], got)
    if not ok_finals:
        k = stats['best']
        res.fail('C18.log', f"no admissible schedule reproduces the destination log; longest matching prefix "
                 f"{k} of {len(got)} entries; got {got[k] if k < len(got) else 'END'!r}, "
                 f"a schedule expects {stats['expected']!r}")
    else:
        # the output of every stage = its last repeat number (a tie at the stop instant may add one)
        if info['finals'] not in ok_finals and info['finals_after_stop'] not in ok_finals:
            res.fail('C18.output', f"outputs {info['finals']}, admissible {sorted(ok_finals)}")
    # last stage: output == repeat at each delivery
    for r in log:
        if r['out'][-1] != r['data'].get('repeat'):
            res.fail('C18.output_at_delivery', f"t={r['t']}: output {r['out'][-1]} repeat {r['data'].get('repeat')}")
            break
    if info['n_later'] != info['n_at_stop']:
        res.fail('C18.sent_after_stop', f"{info['n_later'] - info['n_at_stop']} event(s) delivered "
                 f"after shutdown() returned: {log[info['n_at_stop']:][:2]}")
    if info['pending']:
        res.fail('C18.task_left', f"pending tasks after stop: {info['pending']}")

    # classification
    interval = case['stages'][0]['interval'][0]
    marr = [a['t'] for a in case['arrivals']
            if a['t'] < case['stop'] and a.get('etype', case['etype']) == case['etype']]
    near = tie = False
    for a, b in zip(marr, marr[1:]):
        d = b - a
        if d >= interval - 0.5 and abs(d / interval - round(d / interval)) * interval <= 0.5:
            near = True
            if d / interval == round(d / interval):
                tie = True
    nrep = sum(1 for r in log if r['data'].get('repeat', 0) > 0)
    res.nontrivial = len(marr) >= 2 and near and nrep >= 1
    res.classes = [f"stages={len(case['stages'])}", f"entry={case['entry']}"]
    if case['implicit_first'] or case['entry'] == 'input':
        res.classes.append('implicit Repeat')
    if case.get('strip'):
        res.classes.append('filter stripping items in front of the Repeat')
    if tie:
        res.classes.append('arrival exactly at a repetition instant')
    if stats['branch']:
        res.classes.append('set-valued (tie)')
    if any(a.get('etype', case['etype']) != case['etype'] for a in case['arrivals']):
        res.classes.append('non-matching type present')
    res.outcome = {'deliveries': len(got), 'repetitions': nrep, 'tie_points': stats['branch']}
    return res


def same_log(got, exp):
    if len(got) != len(exp):
        return False
    for (t1, e1, d1), (t2, e2, d2) in zip(got, exp):
        if d2.get('orig_source', 0) is None and 'orig_source' not in d1:
            # the event had no 'source' item: 'orig_source' may be None or absent (not documented)
            d2 = {k: v for k, v in d2.items() if k != 'orig_source'}
        if abs(t1 - t2) > 1e-9 or e1 != e2 or set(d1) != set(d2):
            return False
        for k in d1:
            if d1[k] is UNDEF or d2[k] is UNDEF:
                if d1[k] is not d2[k]:
                    return False
            elif d1[k] != d2[k]:
                return False
    return True
