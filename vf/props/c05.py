"""C05 - after start-up every block has a valid output, taken from the documented sources.

Generator: <=4 blocks (probe blocks with every combination of init sources, Input without
initdef, ValuePoll, InitAsync), an acyclic init-time event topology, optional failing first
evaluation, several tasks waiting in wait_init(); every case is run for several creation
orders.  Oracle: own model of the documented initialisation algorithm (verdict, outputs,
per-block call log, duration of the asynchronous phase) + metamorphic relation over the
creation orders.
"""
import asyncio
import itertools

from hypothesis import strategies as st

import edzed

from .. import harness
from ..runner import Result

ID = 'C05'
LEVEL = 'exploration'
BUDGET = {'quick': 4000, 'thorough': 6000}
RULE = ("Case = 1-4 blocks from {probe (saved state absent/valid/rejected x init_async absent/ok/fail/never at "
        "t x init_timeout 0/2/5 x init_regular absent/sets/does nothing x initdef absent/value), Input without "
        "initdef, ValuePoll (value / UNDEF then value / async value / raising; interval below or above the "
        "timeout), InitAsync (ok/fail/never)} with on_output events along an acyclic topology, optionally answered by an event back to the sender that arrives in the middle of the sender's own initialisation routine (events are "
        "emitted by every init step that changes the output), optionally combinational blocks fed by constants only, optionally a FuncBlock whose first evaluation "
        "fails (with or without a block having asynchronous clean-up), 1-2 tasks waiting in wait_init() from "
        "the first instant; each case is run for up to 4 (thorough: all <=24) creation orders. "
        "Non-trivial = >=2 blocks with different init sources and (>=1 init-time event delivered or >=1 "
        "asynchronous routine started); distinct by descriptor.")
ASSUMPTIONS = [
    "completion times of asynchronous routines never coincide with a timeout or with each other "
    "(offsets of 0.1 s per block), so no tie between a completion and a time-out is generated",
    "exact per-block call logs and outputs are compared when start-up succeeds; when it fails only "
    "the verdict, the at-most-once and the ordering rules are asserted (the first failure cuts the rest short)",
    "the init-time event topology is acyclic (cycles are C11's subject)",
]

UNDEF = edzed.UNDEF


class Fatal(Exception):
    pass


# ---------------------------------------------------------------- generator
@st.composite
def cases(draw):
    n = draw(st.integers(1, 4))
    blocks = []
    for i in range(n):
        kind = draw(st.sampled_from(['probe', 'probe', 'probe', 'probe', 'input', 'valuepoll', 'initasync']))
        b = {'kind': kind, 'emits': []}
        if kind == 'probe':
            b.update({
                'restore': draw(st.sampled_from([None, None, 'ok', 'bad'])),
                'async': draw(st.sampled_from([None, None, ['ok', 1], ['ok', 3], ['ok', 4], ['fail', 1], ['never', 0]])),
                'timeout': draw(st.sampled_from([0, 2, 5])),
                'regular': draw(st.sampled_from([None, None, 'set', 'noop'])),
                'initdef': draw(st.sampled_from([None, None, 7])),
            })
        elif kind == 'valuepoll':
            b.update({
                'func': draw(st.sampled_from(['value', 'value', 'undef_first', 'undef_first', 'undef_first',
                                              'async_value', 'async_value', 'raise'])),
                'interval': draw(st.sampled_from([1.3, 3.7, 7.3])),
                'timeout': draw(st.sampled_from([2, 5])),
                'initdef': draw(st.sampled_from([None, None, 9])),
            })
        elif kind == 'initasync':
            b.update({
                'coro': draw(st.sampled_from([['ok', 1], ['ok', 3], ['fail', 1], ['never', 0]])),
                'timeout': draw(st.sampled_from([0, 2, 5])),
                'initdef': draw(st.sampled_from([None, None, 5])),
            })
        blocks.append(b)
    # acyclic event topology: i -> j only for j > i, destinations able to handle 'put'
    for i in range(n):
        for j in range(i + 1, n):
            if blocks[j]['kind'] in ('probe', 'input') and draw(st.integers(0, 9)) < 5:
                blocks[i]['emits'].append(j)
    # conditional events that always resolve to 'no event': nothing is delivered and nothing may change,
    # in particular not the saved state of a destination that is still waiting for its restoration
    for i in range(n):
        blocks[i]['noops'] = [j for j in range(i + 1, n)
                              if blocks[j]['kind'] in ('probe', 'input') and draw(st.integers(0, 9)) < 3]
    # back edges: a probe answers every change of its output with an 'ack' event to an earlier probe that
    # itself receives no 'put' events (so the answer can never meet a busy handler); the answer may arrive
    # while the earlier block is in the middle of one of its own initialisation routines
    for j in range(n):
        blocks[j]['acks'] = []
    for i in range(n):
        if blocks[i]['kind'] != 'probe' or any(i in b['emits'] or i in b['noops'] for b in blocks):
            continue
        for j in range(i + 1, n):
            if blocks[j]['kind'] == 'probe' and draw(st.integers(0, 9)) < 4:
                blocks[j]['acks'].append(i)
    # an Input without initdef is mostly given a chance: somebody sends it an event
    for j in range(1, n):
        if blocks[j]['kind'] == 'input' and not any(j in b['emits'] for b in blocks) \
                and draw(st.integers(0, 9)) < 8:
            blocks[draw(st.integers(0, j - 1))]['emits'].append(j)
    # most probe blocks have at least one usable source
    for b in blocks:
        if b['kind'] == 'probe' and b['regular'] != 'set' and b['initdef'] is None \
                and b['restore'] != 'ok' and draw(st.integers(0, 9)) < 7:
            b[draw(st.sampled_from(['regular', 'initdef']))] = 'set' if draw(st.booleans()) else 7
            if b['regular'] == 7:
                b['regular'] = 'set'
            if b['initdef'] == 'set':
                b['initdef'] = 7
    case = {'blocks': blocks,
            'calc': draw(st.sampled_from([None, None, 'ok', 'fail'])),
            'slowstop': draw(st.booleans()),
            # combinational blocks without any block on their inputs (constants only / no inputs)
            'consts': draw(st.sampled_from([None, None, 'and', 'func', 'empty', 'chain'])),
            'consts_first': draw(st.booleans()),
            'bigchain': draw(st.sampled_from([0] * 19 + [130, 320])),
            # a persistent library FSM with a saved state (its output may be a false value) and a
            # different initdef: the saved state wins
            'libfsm': draw(st.sampled_from([None, None, 'timer_off', 'timer_on', 'inputexp_expired',
                                            'inputexp_valid'])),
            'waiters': draw(st.integers(1, 2)),
            'permseed': draw(st.integers(0, 1000))}
    return case


def strategy(tier):
    return cases().map(lambda c: dict(c, all_orders=(tier == 'thorough')))


def orders_for(case, tier_all):
    n = len(case['blocks'])
    perms = list(itertools.permutations(range(n)))
    if tier_all or len(perms) <= 4:
        return perms
    # deterministic selection of 4 orders incl. the identity and the reverse
    k = case['permseed']
    chosen = [perms[0], perms[-1], perms[k % len(perms)], perms[(7 * k + 3) % len(perms)]]
    out = []
    for p in chosen:
        if p not in out:
            out.append(p)
    return out


# ---------------------------------------------------------------- model
def eff_t(b, i):
    """completion instant of the block's asynchronous source"""
    if b['kind'] == 'probe':
        return b['async'][1] + 0.1 * i
    if b['kind'] == 'initasync':
        return b['coro'][1] + 0.1 * i
    if b['func'] == 'async_value':
        return 0.5 + 0.01 * i
    return b['interval'] + 0.01 * i


class Model:
    def __init__(self, case, order):
        self.case = case
        self.order = list(order)
        self.blocks = case['blocks']
        n = len(self.blocks)
        self.out = [UNDEF] * n
        self.steps = [0] * n
        self.calls = [[] for _ in range(n)]
        self.silent = [False] * n       # InitAsync drops its output events when it gives up
        self.events_delivered = 0
        self.busy = []          # blocks inside an event handler (innermost last)
        self.unsure = False     # an event met a busy destination: the recursion guard decides (-> C11)
        self.async_started = 0
        self.duration = 0.0

    def set_output(self, i, value):
        if self.out[i] is UNDEF or self.out[i] != value:
            self.out[i] = value
            if not self.silent[i]:
                if any(j in self.busy for j in self.blocks[i].get('noops', [])):
                    self.unsure = True
                for j in self.blocks[i]['emits']:
                    self.event(j, i, value)
                for j in self.blocks[i].get('acks', []):
                    self.ack(j, i)

    def ack(self, j, src):
        self.events_delivered += 1
        if j in self.busy:
            self.unsure = True
        if self.steps[j] in (0, 1):
            self.init_steps(j, full=True)
        self.calls[j].append(f'ack:b{src}')

    def event(self, j, src, value):
        self.events_delivered += 1
        if j in self.busy:
            self.unsure = True
        if self.steps[j] in (0, 1):
            self.init_steps(j, full=True)
        b = self.blocks[j]
        self.busy.append(j)
        try:
            if b['kind'] == 'probe':
                self.calls[j].append(f'event:b{src}')
                self.set_output(j, ['E', f'b{src}'])
            else:
                self.set_output(j, value)
        finally:
            self.busy.pop()

    def init_steps(self, j, full):
        steps = self.steps[j]
        b = self.blocks[j]
        if steps == 0:
            self.steps[j] = -1
            if b['kind'] == 'probe' and b['restore']:
                self.calls[j].append('restore')
                if b['restore'] == 'ok':
                    self.set_output(j, ['R', 'saved'])
            self.steps[j] = 1
        if steps == 1 or (steps == 0 and full):
            self.steps[j] = -2
            self.regular(j)
            self.steps[j] = 2

    def regular(self, j):
        b = self.blocks[j]
        kind = b['kind']
        if kind == 'probe':
            self.calls[j].append('regular')
            if b['regular'] == 'set':
                self.set_output(j, 'G')
            if self.out[j] is UNDEF and b['initdef'] is not None:
                self.calls[j].append('fromvalue')
                self.set_output(j, ['V', b['initdef']])
        elif kind == 'valuepoll':
            if self.out[j] is UNDEF and b['initdef'] is not None:
                self.set_output(j, b['initdef'])
        elif kind == 'initasync':
            if self.out[j] is UNDEF and b['initdef'] is None:
                self.silent[j] = True
                self.out[j] = None
            if self.out[j] is UNDEF and b['initdef'] is not None:
                self.set_output(j, b['initdef'])

    def run(self):
        """-> verdict 'ok' | 'fail'"""
        blocks = self.blocks
        try:
            # after start(): the main tasks of the ValuePoll blocks run once
            timeline = []       # (instant, block, what)
            for i in self.order:
                b = blocks[i]
                if b['kind'] == 'valuepoll':
                    if b['func'] == 'raise':
                        raise Fatal('valuepoll function raised')
                    if b['func'] == 'value':
                        self.set_output(i, f'vp{i}')
                    else:
                        timeline.append((eff_t(b, i), i, 'vp'))
            for i in self.order:
                self.init_steps(i, full=False)
            # asynchronous phase
            tasks = []
            for i in self.order:
                b = blocks[i]
                if self.out[i] is not UNDEF or b.get('timeout', 0) <= 0:
                    continue
                if b['kind'] == 'probe' and b['async']:
                    tasks.append((i, b['timeout'], eff_t(b, i) if b['async'][0] != 'never' else None))
                    self.calls[i].append('async')
                elif b['kind'] == 'initasync':
                    tasks.append((i, b['timeout'], eff_t(b, i) if b['coro'][0] != 'never' else None))
                elif b['kind'] == 'valuepoll':
                    tasks.append((i, b['timeout'], eff_t(b, i)))
            self.async_started = len(tasks)
            now = 0.0
            cancel_at = {}
            for i, timeout, t in sorted(tasks, key=lambda x: -x[1]):
                if t is not None and t <= now:
                    continue
                if timeout <= now:
                    cancel_at[i] = now
                elif t is not None and t < timeout:
                    now = t
                else:
                    cancel_at[i] = timeout
                    now = timeout
            self.duration = now
            for i, timeout, t in tasks:
                b = blocks[i]
                if b['kind'] == 'valuepoll' or t is None:
                    continue
                if t < cancel_at.get(i, float('inf')):
                    timeline.append((t, i, 'task'))
            for t, i, what in sorted(timeline):
                b = blocks[i]
                if what == 'vp':
                    if t <= now + 1e-9:     # its own completion may be what ends the phase
                        self.set_output(i, f'vp{i}')
                elif b['kind'] == 'probe':
                    if b['async'][0] == 'ok' and self.out[i] is UNDEF:
                        self.set_output(i, 'A')
                elif b['coro'][0] == 'ok':
                    self.set_output(i, f'ia{i}')
            for i in self.order:
                self.init_steps(i, full=False)
            if any(self.out[i] is UNDEF for i in range(len(blocks))):
                raise Fatal('uninitialised block')
            if self.case['calc'] == 'fail':
                raise Fatal('first evaluation fails')
            return 'ok'
        except Fatal:
            return 'fail'


# ---------------------------------------------------------------- real blocks
class Probe(edzed.AddonPersistence, edzed.AddonAsync, edzed.SBlock):
    def __init__(self, *args, cfg, idx, **kwargs):
        self.cfg = cfg
        self.idx = idx
        self.calls = []
        super().__init__(*args, **kwargs)

    def _restore_state(self, state):
        self.calls.append('restore')
        if self.cfg['restore'] == 'bad':
            raise ValueError('saved state rejected')
        self.set_output(['R', state])

    async def init_async(self):
        self.calls.append('async')
        kind, _ = self.cfg['async']
        if kind == 'never':
            await asyncio.sleep(10 ** 6)
        await asyncio.sleep(eff_t(self.cfg, self.idx))
        if kind == 'fail':
            raise RuntimeError('init_async failed')
        if not self.is_initialized():
            self.set_output('A')

    def init_regular(self):
        self.calls.append('regular')
        if self.cfg['regular'] == 'set':
            self.set_output('G')

    def init_from_value(self, value):
        self.calls.append('fromvalue')
        self.set_output(['V', value])

    def _event_put(self, *, source, **_data):
        self.calls.append(f'event:{source}')
        self.set_output(['E', source])

    def _event_ack(self, *, source, **_data):
        self.calls.append(f'ack:{source}')

    def get_state(self):
        return self.output


class SlowStop(edzed.AddonAsync, edzed.SBlock):
    def init_regular(self):
        self.set_output(0)

    async def stop_async(self):
        await asyncio.sleep(1)


def run_order(case, order):
    obs = {}

    async def scenario(loop):
        harness.reset()
        circuit = edzed.get_circuit()
        blocks = case['blocks']
        real = {}
        storage = harness.DeepCopyDict()

        def mkconsts():
            if case.get('bigchain'):
                # a first evaluation of hundreds of blocks is still one uninterrupted step: wait_init()
                # must not return before the last of them has its output
                edzed.Input('z_src', initdef=True)
                prev = 'z_src'
                for k in range(case['bigchain']):
                    edzed.Not(f'z{k}').connect(prev)
                    prev = f'z{k}'
            kind = case.get('consts')
            if kind == 'and':
                edzed.And('k0').connect(True, edzed.Const(1))
            elif kind == 'func':
                edzed.FuncBlock('k0', func=lambda a, b: a + b).connect(2, 3)
            elif kind == 'empty':
                edzed.FuncBlock('k0', func=lambda g: len(g)).connect(g=())
            elif kind == 'chain':
                edzed.Not('k1').connect('k0')
                edzed.And('k0').connect(True)
        if case.get('consts_first'):
            mkconsts()
        for i in order:
            b = blocks[i]
            name = f'b{i}'
            evs = ([edzed.Event(f'b{j}', edzed.EventCond(None, None)) for j in b.get('noops', [])]
                   + [edzed.Event(f'b{j}', 'put') for j in b['emits']]
                   + [edzed.Event(f'b{j}', 'ack') for j in b.get('acks', [])])
            if b['kind'] == 'probe':
                kw = {}
                if b['initdef'] is not None:
                    kw['initdef'] = b['initdef']
                blk = Probe(name, cfg=b, idx=i, persistent=bool(b['restore']), on_output=evs, **kw)
                if b['async']:
                    blk.init_timeout = float(b['timeout'])
                else:
                    blk.init_timeout = 0.0      # no asynchronous source configured
                if b['restore']:
                    storage[blk.key] = 'saved'
            elif b['kind'] == 'input':
                blk = edzed.Input(name, on_output=evs)
            elif b['kind'] == 'valuepoll':
                state = {'n': 0}

                def func(b=b, i=i, state=state):
                    state['n'] += 1
                    if b['func'] == 'raise':
                        raise RuntimeError('poll failed')
                    if b['func'] == 'undef_first' and state['n'] == 1:
                        return UNDEF
                    if b['func'] == 'async_value':
                        async def later():
                            await asyncio.sleep(eff_t(b, i))
                            return f'vp{i}'
                        return later()
                    return f'vp{i}'
                kw = {}
                if b['initdef'] is not None:
                    kw['initdef'] = b['initdef']
                blk = edzed.ValuePoll(name, func=func, interval=eff_t(b, i) if b['func'] == 'undef_first' else 50,
                                      init_timeout=b['timeout'], on_output=evs, **kw)
            else:
                async def coro(b=b, i=i):
                    if b['coro'][0] == 'never':
                        await asyncio.sleep(10 ** 6)
                    await asyncio.sleep(eff_t(b, i))
                    if b['coro'][0] == 'fail':
                        raise RuntimeError('init coroutine failed')
                    return f'ia{i}'
                kw = {}
                if b['initdef'] is not None:
                    kw['initdef'] = b['initdef']
                blk = edzed.InitAsync(name, init_coro=[coro], init_timeout=b['timeout'], on_output=evs, **kw)
            real[i] = blk
        if case['calc']:
            fail = case['calc'] == 'fail'

            def calc(x):
                if fail:
                    raise ZeroDivisionError('first evaluation')
                return 1
            edzed.FuncBlock('cb', func=calc).connect(f'b{order[0]}')
        if case['slowstop']:
            SlowStop('slowstop', stop_timeout=3)
        lf = case.get('libfsm')
        libblk = None
        if lf in ('timer_off', 'timer_on'):
            libblk = edzed.Timer('ltm', persistent=True, initdef='on' if lf == 'timer_off' else 'off')
            storage[libblk.key] = ['off' if lf == 'timer_off' else 'on', None, {}]
        elif lf in ('inputexp_expired', 'inputexp_valid'):
            libblk = edzed.InputExp('lie', duration=edzed.INF_TIME, expired=None, initdef=5, persistent=True)
            storage[libblk.key] = (['expired', None, {'input': 3}] if lf == 'inputexp_expired'
                                   else ['valid', None, {'input': 0}])
        if not case.get('consts_first'):
            mkconsts()
        circuit.set_persistent_data(storage)
        t0 = loop.time()
        task = asyncio.create_task(circuit.run_forever())
        waits = []

        async def waiter(k):
            try:
                await circuit.wait_init()
            except edzed.EdzedInvalidState:
                waits.append((k, 'EdzedInvalidState', loop.time() - t0, None, None))
                return
            except Exception as err:
                waits.append((k, type(err).__name__, loop.time() - t0, None, None))
                return
            waits.append((k, 'ok', loop.time() - t0,
                          ['<UNDEF>' if real[i].output is UNDEF else real[i].output for i in range(len(blocks))],
                          circuit.is_ready()))
            obs.setdefault('all_outputs', {blk.name: ('<UNDEF>' if blk.output is UNDEF else blk.output)
                                           for blk in circuit.getblocks()})
            if libblk is not None:
                obs.setdefault('libfsm', [libblk.state, libblk.output])
        wtasks = [asyncio.create_task(waiter(k)) for k in range(case['waiters'])]
        await asyncio.gather(*wtasks)
        obs['waits'] = waits
        obs['calls'] = [getattr(real[i], 'calls', None) for i in range(len(blocks))]
        obs['error'] = None if circuit.error is None else type(circuit.error).__name__
        if all(w[1] != 'ok' for w in waits):
            # the simulation must terminate by itself
            try:
                await asyncio.wait_for(asyncio.shield(task), 100)
            except BaseException:
                pass
            obs['sim_done'] = task.done()
            obs['error'] = None if circuit.error is None else type(circuit.error).__name__
        try:
            await circuit.shutdown()
        except BaseException:
            pass
        if not task.done():
            task.cancel()

    harness.run_case(scenario)
    return obs


def jsonable(x):
    if isinstance(x, tuple):
        return [jsonable(i) for i in x]
    if isinstance(x, list):
        return [jsonable(i) for i in x]
    return x


def execute(case, all_orders=False):
    res = Result()
    blocks = case['blocks']
    verdicts = {}
    started_async = delivered = 0
    orders = orders_for(case, all_orders or case.get('all_orders', False))
    recursion_prone = False
    for order in orders:
        model = Model(case, order)
        verdict = model.run()
        obs = run_order(case, order)
        tag = f"creation order {list(order)}: "
        if model.unsure:
            # an answer met a destination that was still handling an event: whether that is fatal is the
            # business of the recursion guard (C11), not of the start-up rules; only 'at most once' is kept
            recursion_prone = True
            for i, calls in enumerate(obs['calls']):
                for r in ('restore', 'async', 'regular', 'fromvalue'):
                    if calls is not None and calls.count(r) > 1:
                        res.fail('C05.routine_twice', tag + f"b{i}: {r} called {calls.count(r)} times: {calls}")
            continue
        real_verdicts = {w[1] for w in obs['waits']}
        if len(real_verdicts) != 1:
            res.fail('C05.waiters_disagree', tag + f"{obs['waits']}")
            continue
        real = 'ok' if real_verdicts == {'ok'} else 'fail'
        verdicts[tuple(order)] = real
        if real == 'fail' and real_verdicts != {'EdzedInvalidState'}:
            res.fail('C05.wait_init_exception', tag + f"wait_init() raised {real_verdicts}")
        if real != verdict:
            if real == 'ok':
                res.fail('C05.wait_init_returned_on_failure' if case['calc'] == 'fail' and verdict == 'fail'
                         and obs['waits'][0][3] and all(v is not None for v in obs['waits'][0][3])
                         else 'C05.verdict', tag + f"wait_init() returned normally, model predicts failure; "
                         f"outputs {obs['waits'][0][3]}, Circuit.error {obs['error']}")
            else:
                res.fail('C05.verdict', tag + f"start-up failed ({obs['error']}), model predicts success "
                         f"with outputs {model.out}")
            continue
        # at-most-once and ordering rules (always)
        for i, calls in enumerate(obs['calls']):
            if calls is None:
                continue
            for r in ('restore', 'async', 'regular', 'fromvalue'):
                if calls.count(r) > 1:
                    res.fail('C05.routine_twice', tag + f"b{i}: {r} called {calls.count(r)} times: {calls}")
            pos = {r: calls.index(r) for r in ('restore', 'async', 'regular', 'fromvalue') if r in calls}
            seq = [pos[r] for r in ('restore', 'async', 'regular', 'fromvalue') if r in pos]
            if 'async' in pos and any(c.startswith(('event:', 'ack:')) for c in calls[:pos['async']]):
                # an event that arrived before the asynchronous phase made the synchronous steps run first;
                # if it left the block uninitialised, the asynchronous routine comes after them
                seq = [pos[r] for r in ('restore', 'regular', 'fromvalue') if r in pos]
                if 'restore' in pos and pos['restore'] > pos['async']:
                    seq = [1, 0]
            if seq != sorted(seq):
                res.fail('C05.routine_order', tag + f"b{i}: {calls}")
            if 'async' in calls and (blocks[i]['timeout'] <= 0):
                res.fail('C05.async_with_zero_timeout', tag + f"b{i}: {calls}")
            evpos = [k for k, c in enumerate(calls) if c.startswith('event:')]
            # (an event that the block brought upon itself from inside its own restoration cannot be
            # preceded by the remaining steps without running a routine twice; the model knows these)
            mcalls = model.calls[i]
            self_inflicted = 'regular' in mcalls and any(
                c.startswith('event:') for c in mcalls[:mcalls.index('regular')])
            if evpos and 'regular' in pos and pos['regular'] > evpos[0] and not self_inflicted:
                res.fail('C05.event_before_sync_init', tag + f"b{i}: {calls}")
        if real == 'fail':
            if not obs.get('sim_done', True):
                res.fail('C05.not_terminated', tag + "wait_init() raised but the simulation keeps running")
            if obs['error'] is None:
                res.fail('C05.no_error', tag + "start-up failed without Circuit.error")
            continue
        # success: outputs, readiness, exact call logs, duration
        for k, _, t, outs, ready in obs['waits']:
            if not ready:
                res.fail('C05.not_ready', tag + "wait_init() returned but the circuit is not ready")
            if any(o == '<UNDEF>' for o in outs):
                res.fail('C05.undef_after_init', tag + f"outputs {outs}")
            want = [jsonable(o) for o in model.out]
            if [jsonable(o) for o in outs] != want:
                res.fail('C05.outputs', tag + f"outputs {outs}, expected {want}")
            if abs(t - model.duration) > 1e-6:
                res.fail('C05.duration', tag + f"wait_init() returned after {t} s, asynchronous phase should "
                         f"take {model.duration} s")
        undef = sorted(n for n, o in obs.get('all_outputs', {}).items() if o == '<UNDEF>')
        if undef:
            res.fail('C05.undef_after_init', tag + f"blocks {undef} have no output after wait_init()")
        want_consts = {'and': {'k0': True}, 'func': {'k0': 5}, 'empty': {'k0': 0},
                       'chain': {'k0': True, 'k1': False}}.get(case.get('consts'), {})
        for n, w in want_consts.items():
            if obs['all_outputs'].get(n) != w:
                res.fail('C05.outputs', tag + f"combinational block {n} outputs {obs['all_outputs'].get(n)!r}, "
                         f"expected {w!r}")
        want_lib = {'timer_off': ['off', False], 'timer_on': ['on', True], 'inputexp_expired': ['expired', None],
                    'inputexp_valid': ['valid', 0]}.get(case.get('libfsm'))
        if want_lib is not None and obs.get('libfsm') != want_lib:
            res.fail('C05.saved_state_not_used', tag + f"persistent {case['libfsm']}: state and output "
                     f"{obs.get('libfsm')}, the saved state gives {want_lib}")
        maxto = max([b.get('timeout', 0) for b in blocks] or [0])
        if obs['waits'][0][2] > maxto + 1e-6:
            res.fail('C05.waited_too_long', tag + f"{obs['waits'][0][2]} s > largest init_timeout {maxto}")
        for i, calls in enumerate(obs['calls']):
            if calls is not None and calls != model.calls[i]:
                res.fail('C05.call_log', tag + f"b{i}: calls {calls}, expected {model.calls[i]}")
        started_async = max(started_async, model.async_started)
        delivered = max(delivered, model.events_delivered)
    if len(set(verdicts.values())) > 1:
        res.fail('C05.order_dependent', f"start-up verdict depends on the creation order: {verdicts}")
    kinds = {(b['kind'], str({k: v for k, v in b.items() if k not in ('kind', 'emits', 'noops', 'acks')})) for b in blocks}
    res.nontrivial = len(kinds) >= 2 and (started_async >= 1 or delivered >= 1)
    res.evals = len(orders)
    res.classes = [f'blocks={len(blocks)}', 'verdict ' + '/'.join(sorted(set(verdicts.values())))]
    if delivered:
        res.classes.append('init-time event delivered')
    if started_async:
        res.classes.append('asynchronous routine started')
    if case.get('bigchain'):
        res.classes.append('first evaluation of hundreds of blocks')
    if case['calc'] == 'fail':
        res.classes.append('first evaluation fails')
    if recursion_prone:
        res.classes.append('answer meets a busy block (verdict not compared)')
    if any(b.get('acks') for b in blocks):
        res.classes.append('events answered with an event back to the sender')
    res.outcome = {'orders': len(orders), 'verdicts': sorted(set(verdicts.values()))}
    return res
