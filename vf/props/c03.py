"""C03 - an FSM follows its transition table and runs its actions in the documented order.

Generated FSM classes (type()), mostly without timers; own interpreter of docs/FSM.rst as oracle.
See vf/fsmlab.py for the descriptor, the executor and the reference interpreter.
"""
import itertools

from hypothesis import strategies as st

from .. import fsmlab
from ..runner import Result

ID = 'C03'
LEVEL = 'exploration'
BUDGET = {'quick': 3000, 'thorough': 8000}
RULE = ("Case = generated FSM class (1-3 states, 1-2 events; random tier up to 5 states / 4 events) with "
        "per event an any-state rule in {absent, None, state} and per (event, state) a rule in {absent, "
        "None, state}, rendered as list / 'a|b' / 'a | b'; optional cond_E / enter_S / exit_S as class "
        "method and/or instance callback (every hook logs the event data it sees, the state and the output, "
        "and tries to write into the data); entry actions scripted to request a chained transition "
        "(event or Goto, once or twice); on_enter / on_exit / on_notrans / on_output events to a recorder; "
        "calc_output default or a per-state map that may return UNDEF; initdef; history of 0-8 steps of "
        "table events, unknown events and external Goto with data items. The complete ordered log of hooks "
        "and events plus return value, state and output after every step must equal the reference "
        "interpreter's. Non-trivial = history with >=1 accepted and >=1 rejected event and (a specific "
        "rule overriding a different any-state rule was used, or a chained transition happened); distinct "
        "by descriptor.")
ASSUMPTIONS = [
    "the instance callback and the class method of one hook may run in either order (documented); "
    "they are compared as an unordered pair",
    "after a fatal error (two chained requests, chain limit) only the exception class and "
    "Circuit.error are compared, the history ends there",
    "chained requests for unknown events are not generated (undocumented corner)",
]


def strategy(tier):
    big = fsmlab.fsm_desc(max_states=5, max_events=4, timers=False, flaky=True)
    small = fsmlab.fsm_desc(max_states=3, max_events=2, timers=False, flaky=True)
    # some machines with timed states: a chained transition must leave nothing behind of the
    # intermediate state, a timer included (C04 looks at the timing proper)
    timed = fsmlab.fsm_desc(max_states=3, max_events=2, timers=True, flaky=True)
    return st.one_of(small, small, big, timed).flatmap(
        lambda d: st.booleans().map(lambda cb: dict(d, cb_driver=cb)))


# ---------------------------------------------------------------- exhaustive tables
STATES3 = ['s0', 's1', 's2']
OPTS = ['absent', 'none'] + STATES3


def _rules_for(ev, combo):
    """combo = (any-state rule, rule for s0, s1, s2)"""
    rules = []
    if combo[0] != 'absent':
        rules.append([ev, None, None if combo[0] == 'none' else combo[0], 'list'])
    for s, opt in zip(STATES3, combo[1:]):
        if opt != 'absent':
            rules.append([ev, [s], None if opt == 'none' else opt, 'list'])
    return rules


def _base(rules, events, steps):
    # an event without any rule does not exist for the FSM (it is an unknown event)
    events = [ev for ev in events if any(r[0] == ev for r in rules)]
    return {'lib': None, 'states': list(STATES3), 'events': events, 'rules': rules, 'timers': {},
            'inst_t': {}, 'cond': {}, 'icond': {}, 'enter': {}, 'ienter': {}, 'exit': {}, 'iexit': {},
            'outmap': None, 'initdef': None, 'on_enter': list(STATES3), 'on_exit': list(STATES3),
            'notrans': True, 'on_output': True, 'steps': steps, 'stop': 0.0}


def exh_subcases(batch):
    kind, idx = batch['exh']
    combos = list(itertools.product(OPTS, repeat=4))
    if kind == 1:
        # one event: table idx x all sequences of length 5 over {e0, bogus}
        rules = _rules_for('e0', combos[idx])
        for seq in itertools.product(['e0', 'bogus'], repeat=5):
            steps = [{'t': 0.0, 'ev': ev, 'data': {'tag': k}} for k, ev in enumerate(seq)]
            yield _base(rules, ['e0'], steps)
    else:
        # two events: table idx for e0 x all tables for e1 x all sequences of length 2 over {e0, e1}
        r0 = _rules_for('e0', combos[idx])
        for c1 in combos:
            rules = r0 + _rules_for('e1', c1)
            for seq in itertools.product(['e0', 'e1'], repeat=2):
                steps = [{'t': 0.0, 'ev': ev, 'data': {'tag': k}} for k, ev in enumerate(seq)]
                yield _base(rules, ['e0', 'e1'], steps)


def exhaustive(tier):
    if tier != 'thorough':
        return None

    def gen():
        for idx in range(625):
            yield {'exh': [1, idx]}
        for idx in range(625):
            yield {'exh': [2, idx]}
    return ("all 625 single-event tables over 3 states x all 32 sequences of length 5 over {event, "
            "unknown event}; all 390625 two-event tables x all 4 sequences of length 2 (any-state rule and "
            "per-state rules each in {absent, None, s0, s1, s2}); every prefix is checked", gen())


# ---------------------------------------------------------------- executor
def check(desc, res, prefix='C03'):
    """run one descriptor; returns the matching model (or None)"""
    results, log, info = fsmlab.run_real(desc)
    if 'livelock' in info:
        res.fail(f'{prefix}.livelock', "the FSM keeps the event loop busy without any time passing: "
                 + info['livelock'])
        return None
    if 'build_error' in info:
        res.fail(f'{prefix}.build_failed', info['build_error'])
        return None
    outcomes = fsmlab.admissible_runs(desc, log)
    idx, diff = fsmlab.compare(results, log, outcomes)
    if idx is None:
        res.fail(f'{prefix}.log' if diff[1] == 'log' else f'{prefix}.step',
                 f"{diff[2]} ({len(outcomes)} admissible schedule(s))")
        return None
    model = outcomes[idx][2]
    # hooks must have seen read-only data
    for e in log:
        if e[0] == 'hook' and e[7] is not True:
            res.fail(f'{prefix}.data_writable', f"hook {e[1]}_{e[3]} could write into fsm_event_data")
            break
    if info.get('late'):
        res.fail(f'{prefix}.activity_after_stop', f"{info['late'][:2]}")
    if info.get('handles_after_stop'):
        res.fail(f'{prefix}.timer_after_stop', f"{info['handles_after_stop']} live timer handle(s) after stop")
    return model


def execute(case):
    res = Result()
    if 'exh' in case:
        res.evals = 0
        for n, sub in enumerate(exh_subcases(case)):
            res.evals += 1
            before = len(res.violations)
            model = check(sub, res)
            if len(res.violations) > before:
                res.violations[-1] = (res.violations[-1][0],
                                      f"[sub-case {n}: rules {sub['rules']} steps {[s['ev'] for s in sub['steps']]}] "
                                      + str(res.violations[-1][1]))
                break
            if model is not None and model.accepted > 1 and model.rejected >= 1 and model.precedence:
                res.nt_count += 1
        res.classes = [f"exhaustive batch kind {case['exh'][0]}"]
        return res
    model = check(case, res)
    if model is None:
        return res
    res.nontrivial = (model.accepted > 1 and model.rejected >= 1
                      and (model.precedence or model.chained))
    res.classes = [f"states={len(case['states'])}"]
    if model.chained:
        res.classes.append('chained transition')
    if model.nonfatal:
        res.classes.append('output event refused by its destination (non-fatal)')
    if model.precedence:
        res.classes.append('specific rule beats any-state rule')
    if model.error:
        res.classes.append('fatal (multiplication / chain limit)')
    if any(isinstance(s['ev'], list) for s in case['steps']):
        res.classes.append('external Goto')
    if any(k for k in list(case['cond'].values()) + list(case['icond'].values())):
        res.classes.append('conditions')
    if case.get('cb_driver'):
        res.classes.append('callback driver')
    res.outcome = {'accepted': model.accepted, 'rejected': model.rejected, 'log_entries': len(model.log)}
    return res
