"""C02 - output events reproduce the source block's output history exactly.

Generator: sender kind (sequential probe / combinational FuncBlock behind an Input), 0-3
on_output and 0-3 on_every_output events, each with 0-2 filters and one of <=3 recorders,
value history over a pool with equal-but-not-identical members.
Oracle: own change detector + filter fold -> expected global delivery log, compared item by
item incl. object identity of 'previous' and 'value' and the synchronous-delivery marks.
"""
from hypothesis import strategies as st

import edzed

from .. import harness
from ..runner import Result

ID = 'C02'
LEVEL = 'exploration'
BUDGET = {'quick': 4000, 'thorough': 25000}
RULE = ("Case = sender (SBlock whose 'set' event assigns the output - and whose stop() may assign it once more -, initialised by its regular "
        "routine or by an event arriving during start-up; or a library block: Input fed by puts, Counter fed by "
        "inc/dec/put/reset, ValuePoll whose polls yield a value or nothing, InitAsync whose coroutine yields a value, fails or times out, with or without an initdef of any truth value; or FuncBlock identity/bool/pair/const fed by an "
        "Input, one evaluation per value or several puts per evaluation) x 0-3 on_output x 0-3 "
        "on_every_output events over <=3 shared recorders, each event with 0-2 filters from "
        "{add tag, delete 'trigger', strip all items, reject-if-value-in-set} x history of 0-30 assignments over "
        "{1,True,1.0,0,False,0.0,None,'',(1,2),[1],'a',2,2.0,NaN} with fresh equal copies and immediate "
        "repeats. Non-trivial = history with >=1 change between values of different type that compare "
        "equal or an equal-not-identical repeat, >=1 immediate repeat, and >=2 configured events; "
        "distinct by descriptor.")
ASSUMPTIONS = [
    "a NaN is unequal to everything including itself, so assigning it (even the same object again) is a change",
    "the return value of Event.send() for on_output events is not observable and not checked here (C16 does)",
]

UNDEF = edzed.UNDEF
NAN = float('nan')
POOL = [1, True, 1.0, 0, False, 0.0, None, '', (1, 2), [1], 'a', 2, 2.0, NAN]
FUNCS = ['identity', 'bool', 'pair', 'const']


def mkval(idx, fresh):
    v = POOL[idx]
    if fresh and isinstance(v, tuple):
        return tuple(list(v))
    if isinstance(v, list):
        return list(v)          # lists are always fresh objects
    if v is NAN and fresh:
        return float('nan')     # another object that is not equal to anything either
    return v


class Probe(edzed.SBlock):
    """sequential sender: the 'set' event assigns the output; marks bracket every assignment"""

    def assign(self, value):
        n0 = len(self.x_log)
        self.set_output(value)
        self.x_marks.append((n0, len(self.x_log)))

    def init_regular(self):
        if self.x_first is not UNDEF:
            self.assign(self.x_first)

    def _event_set(self, *, value, **_data):
        self.assign(value)
        return True

    def stop(self):
        # a last assignment made by the clean-up (like an output block processing its stop_data)
        last = getattr(self, 'x_last', UNDEF)
        if last is not UNDEF:
            self.assign(last)
        super().stop()


class PProbe(edzed.AddonPersistence, Probe):
    """persistent sender: the saved state is restored by an assignment; a damaged state makes the
    restoration fail *after* that assignment (the failure is only logged, the output history goes on)"""

    def get_state(self):
        return {'v': self.output}

    def _restore_state(self, state):
        self.assign(state['v'])
        if state.get('damaged'):
            raise RuntimeError('saved state is damaged')


# ---------------------------------------------------------------- generator
filter_st = st.one_of(
    st.integers(0, 5).map(lambda i: ['add', i]),
    st.just(['deltrig']),
    st.just(['strip']),
    st.lists(st.integers(0, len(POOL) - 1), min_size=1, max_size=3, unique=True).map(
        lambda idxs: ['reject', sorted(idxs)]),
)
event_st = st.fixed_dictionaries({
    'dest': st.integers(0, 2),
    'filters': st.lists(filter_st, max_size=2),
})


@st.composite
def cases(draw):
    kind = draw(st.sampled_from(['sblock', 'sblock', 'cblock', 'lib']))
    case = {'kind': kind,
            'on_output': draw(st.lists(event_st, max_size=3)),
            'on_every_output': draw(st.lists(event_st, max_size=3)) if kind != 'cblock' else []}
    n = draw(st.integers(0, 30))
    hist = []
    small = draw(st.booleans())         # a small sub-pool makes repeats and equal pairs frequent
    sub = draw(st.lists(st.integers(0, len(POOL) - 1), min_size=2, max_size=4, unique=True)) if small else None
    for _ in range(n):
        mode = draw(st.integers(0, 9))
        if hist and mode <= 2:
            hist.append([hist[-1][0], draw(st.booleans())])      # immediate repeat
        else:
            idx = draw(st.sampled_from(sub)) if sub else draw(st.integers(0, len(POOL) - 1))
            hist.append([idx, draw(st.booleans())])
    case['hist'] = hist
    if kind == 'sblock':
        case['init'] = draw(st.sampled_from(['regular', 'event']))
        if not hist:
            case['hist'] = [[draw(st.integers(0, len(POOL) - 1)), False]]
        if case['init'] == 'regular' and draw(st.integers(0, 3)) == 0:
            # a saved state is restored first (possibly failing after it has set the output)
            case['restore'] = {'idx': draw(st.integers(0, len(POOL) - 1)), 'damaged': draw(st.booleans())}
        if draw(st.integers(0, 2)) == 0:
            # the output changes once more while the simulation is being stopped
            case['stop_assign'] = [draw(st.integers(0, len(POOL) - 1)), draw(st.booleans())]
    elif kind == 'lib':
        # a library block as the sender: every accepted put / every counter event / every poll that
        # yields a value is one output assignment
        case['lib'] = draw(st.sampled_from(['input', 'counter', 'valuepoll', 'initasync']))
        if not hist:
            case['hist'] = hist = [[draw(st.integers(0, len(POOL) - 1)), False]]
        if case['lib'] == 'counter':
            case['initdef'] = draw(st.sampled_from([0, 1, 3, 2.0]))
            case['ops'] = [[draw(st.sampled_from(['inc', 'dec', 'put', 'reset'])),
                            draw(st.sampled_from([None, 0, 0, 1, 2, 1.0, True, 0.0]))] for _ in hist]
        elif case['lib'] == 'initasync':
            # one assignment at most: the coroutine's result, or the initdef value (any value, false ones
            # included) when the coroutine fails, or - without initdef - None without any event
            case['hist'] = hist = hist[:1]
            case['coro'] = draw(st.sampled_from(['ok', 'fail', 'fail', 'timeout']))
            case['initdef'] = draw(st.one_of(st.none(), st.tuples(st.integers(0, len(POOL) - 1), st.just(False)).map(list)))
            if case['coro'] != 'ok' and case['initdef'] is None:
                # the documented silent case ("no output events are generated", the output becomes None):
                # on_every_output events are still sent by the code; whether they count as "output events"
                # there is not for this property to decide, so none are configured
                case['on_every_output'] = []
        elif case['lib'] == 'valuepoll':
            # polls that yield nothing (UNDEF) between the values; never the first one
            case['gaps'] = [False] + [draw(st.integers(0, 4)) == 0 for _ in hist[1:]]
    else:
        case['func'] = draw(st.sampled_from(FUNCS))
        case['initdef'] = [draw(st.integers(0, len(POOL) - 1)), False]
        # group the puts: 1 = one evaluation per value
        case['groups'] = draw(st.lists(st.integers(1, 3), min_size=len(hist), max_size=len(hist)))
    return case


def strategy(tier):
    return cases()


# ---------------------------------------------------------------- model
def apply_filters(filters, data):
    """-> data that leaves the filters, or None when rejected"""
    data = dict(data)
    for f in filters:
        if f[0] == 'add':
            data['tag'] = f[1]
        elif f[0] == 'deltrig':
            data.pop('trigger', None)
        elif f[0] == 'strip':
            data = {}           # an empty mapping is still data, not a veto
        else:
            if 'value' in data and any(data['value'] == POOL[i] for i in f[1]):
                return None
    return data


def mkfilter(f):
    if f[0] == 'add':
        return edzed.DataEdit.add(tag=f[1])
    if f[0] == 'deltrig':
        return edzed.DataEdit.delete('trigger')
    if f[0] == 'strip':
        return edzed.DataEdit.permit()
    idxs = list(f[1])
    return lambda data: not ('value' in data and any(data['value'] == POOL[i] for i in idxs))


def sender_func(name):
    if name == 'identity':
        return lambda x: x
    if name == 'bool':
        return lambda x: bool(x)
    if name == 'pair':
        return lambda x: (x, 1)        # a fresh tuple at every evaluation
    return lambda x: 7


def same_value(a, b):
    """type-exact equality for data items"""
    if a is UNDEF or b is UNDEF:
        return a is b
    if isinstance(a, float) and isinstance(b, float) and a != a and b != b:
        return True             # both NaN
    return type(a) is type(b) and a == b


def execute(case):
    res = Result()
    log = []
    marks = []
    assigned = []       # objects assigned to the sender, in order (sblock) / put to the Input (cblock)
    info = {}

    async def scenario(loop):
        harness.reset()
        circuit = edzed.get_circuit()
        recs = [harness.Recorder(f'r{i}', x_log=log) for i in range(3)]

        def mkevents(specs, prefix):
            return [edzed.Event(recs[s['dest']] if i % 2 else f"r{s['dest']}", f'{prefix}{i}',
                                efilter=[mkfilter(f) for f in s['filters']])
                    for i, s in enumerate(specs)]
        oo = mkevents(case['on_output'], 'o')
        eo = mkevents(case['on_every_output'], 'e')
        if case['kind'] == 'sblock':
            objs = [mkval(*h) for h in case['hist']]
            assigned.extend(objs)
            last = mkval(*case['stop_assign']) if case.get('stop_assign') else UNDEF
            first = objs[0] if case['init'] == 'regular' else UNDEF
            if case.get('restore'):
                robj = mkval(case['restore']['idx'], False)
                assigned.insert(0, robj)
                snd = PProbe('snd', on_output=oo, on_every_output=eo, persistent=True,
                             x_log=log, x_marks=marks, x_first=first, x_last=last)
                circuit.set_persistent_data({snd.key: {'v': robj, 'damaged': case['restore']['damaged']}})
            else:
                snd = Probe('snd', on_output=oo, on_every_output=eo,
                            x_log=log, x_marks=marks, x_first=first, x_last=last)
            edzed.Input('dummy', initdef=0)
            sim = harness.Running(wait=False)
            await sim.__aenter__()
            rest = objs[1:]
            if case['init'] == 'event':
                # the block can only be initialised by an event arriving during the start-up
                await __import__('asyncio').sleep(0)
                edzed.ExtEvent(snd, 'set').send(objs[0])
            try:
                await circuit.wait_init()
            except Exception as err:
                info['init_error'] = repr(err) + ' / ' + repr(circuit.error)
                await sim.stop()
                return
            for obj in rest:
                edzed.ExtEvent(snd, 'set').send(obj)
                if circuit.error is not None:
                    break
            info['final'] = snd.output
            if last is not UNDEF:
                assigned.append(last)
                info['final_after_stop'] = snd
        elif case['kind'] == 'lib':
            objs = [mkval(*h) for h in case['hist']]
            edzed.Input('dummy', initdef=0)
            if case['lib'] == 'input':
                assigned.extend(objs)
                snd = edzed.Input('snd', initdef=objs[0], on_output=oo, on_every_output=eo)
            elif case['lib'] == 'initasync':
                async def coro():
                    if case['coro'] == 'timeout':
                        await __import__('asyncio').sleep(50)
                    if case['coro'] == 'fail':
                        raise RuntimeError('no value')
                    return objs[0]
                ikw = {}
                if case['initdef'] is not None:
                    ikw['initdef'] = mkval(*case['initdef'])
                if case['coro'] == 'ok':
                    assigned.append(objs[0])
                elif case['initdef'] is not None:
                    assigned.append(ikw['initdef'])
                snd = edzed.InitAsync('snd', init_coro=[coro], init_timeout=3, on_output=oo,
                                      on_every_output=eo, **ikw)
            elif case['lib'] == 'counter':
                snd = edzed.Counter('snd', initdef=case['initdef'], on_output=oo, on_every_output=eo)
            else:
                feed = []
                for obj, gap in zip(objs, case['gaps']):
                    if gap:
                        feed.append(UNDEF)
                    feed.append(obj)
                assigned.extend(objs)
                it = iter(feed)
                snd = edzed.ValuePoll('snd', func=lambda: next(it, UNDEF), interval=1, init_timeout=5,
                                      on_output=oo, on_every_output=eo)
            sim = harness.Running()
            await sim.__aenter__()
            if sim.init_error is not None:
                info['init_error'] = repr(circuit.error)
                await sim.stop()
                return
            if case['lib'] == 'input':
                marks.append((0, len(log)))
                for obj in objs[1:]:
                    n0 = len(log)
                    edzed.ExtEvent(snd, 'put').send(obj)
                    marks.append((n0, len(log)))
                    if circuit.error is not None:
                        break
            elif case['lib'] == 'counter':
                cur_c = case['initdef']
                assigned.append(cur_c)
                marks.append((0, len(log)))
                for op, amount in case['ops']:
                    n0 = len(log)
                    if op == 'put':
                        val = 0 if amount is None else amount
                        edzed.ExtEvent(snd, 'put').send(val)
                        new = val
                    elif op == 'reset':
                        edzed.ExtEvent(snd, 'reset').send()
                        new = case['initdef']
                    else:
                        if amount is None:
                            edzed.ExtEvent(snd, op).send()
                            amount = 1
                        else:
                            edzed.ExtEvent(snd, op).send(amount=amount)
                        new = cur_c + amount if op == 'inc' else cur_c - amount
                    assigned.append(new)
                    if not (cur_c == new):
                        cur_c = new         # an equal value leaves the old output object in place
                    marks.append((n0, len(log)))
                    if circuit.error is not None:
                        break
            elif case['lib'] == 'initasync':
                info['silent_none'] = not assigned
            else:
                await __import__('asyncio').sleep(len(feed) + 1.5)
            info['final'] = snd.output
        else:
            init = mkval(*case['initdef'])
            info['init_obj'] = init
            inp = edzed.Input('inp', initdef=init)
            snd = edzed.FuncBlock('snd', func=sender_func(case['func']), on_output=oo).connect(inp)
            sim = harness.Running()
            await sim.__aenter__()
            if sim.init_error is not None:
                info['init_error'] = repr(circuit.error)
                await sim.stop()
                return
            info['inp_seen'] = [inp.output]
            info['snd_seen'] = [snd.output]
            k = 0
            hist = case['hist']
            while k < len(hist):
                g = case['groups'][k]
                for h in hist[k:k + g]:
                    obj = mkval(*h)
                    assigned.append(obj)
                    edzed.ExtEvent(inp).send(obj)
                k += g
                await harness.quiesce(loop)
                info['inp_seen'].append(inp.output)
                info['snd_seen'].append(snd.output)
            info['final'] = snd.output
        info['error'] = repr(circuit.error) if circuit.error is not None else None
        err = await sim.stop()
        info['stop_error'] = repr(err) if err is not None else None
        if 'final_after_stop' in info:
            info['final'] = info.pop('final_after_stop').output

    harness.run_case(scenario)
    if 'init_error' in info:
        res.fail('C02.init_failed', info['init_error'])
        return res
    if info['error'] or info['stop_error']:
        res.fail('C02.simulation_error', info['error'] or info['stop_error'])
        return res

    # ---- expected deliveries
    expected = []       # (recorder, etype, data, assignment index)
    cur = UNDEF

    def deliver(specs, prefix, previous, value, k):
        for i, s in enumerate(specs):
            data = apply_filters(s['filters'], {
                'trigger': 'output', 'previous': previous, 'value': value, 'source': 'snd'})
            if data is not None:
                expected.append((f"r{s['dest']}", f'{prefix}{i}', data, k))

    type_pun = repeat = fresh_repeat = False
    if case['kind'] in ('sblock', 'lib'):
        for k, v in enumerate(assigned):
            changed = cur is UNDEF or not (cur == v)
            if cur is not UNDEF and cur == v:
                repeat = True
                if cur is not v:
                    fresh_repeat = True
                if type(cur) is not type(v):
                    type_pun = True
            previous = cur
            if changed:
                cur = v
                deliver(case['on_output'], 'o', previous, v, k)
            deliver(case['on_every_output'], 'e', previous, v, k)
    else:
        f = sender_func(case['func'])
        # the Input keeps its old object when an equal value is put
        icur = UNDEF
        seq = [[info['init_obj']]]
        k = 0
        pos = 0
        while k < len(case['hist']):
            g = case['groups'][k]
            seq.append(assigned[pos:pos + g])
            pos += g
            k += g
        for k, group in enumerate(seq):
            ichanged = False
            for v in group:
                if icur is UNDEF or not (icur == v):
                    icur = v
                    ichanged = True
                else:
                    repeat = True
                    if type(icur) is not type(v):
                        type_pun = True
            if not ichanged:
                continue
            v = f(icur)
            if cur is UNDEF or not (cur == v):
                previous = cur
                cur = v
                deliver(case['on_output'], 'o', previous, v, k)
            elif cur is not v:
                fresh_repeat = True

    # ---- compare
    got = [(r['dest'], r['etype'], r['data']) for r in log]
    if len(got) != len(expected):
        res.fail('C02.delivery_count', f"{len(got)} deliveries, expected {len(expected)}; "
                 f"first extra/missing around index {min(len(got), len(expected))}")
    for n, (g, e) in enumerate(zip(got, expected)):
        if g[0] != e[0] or g[1] != e[1]:
            res.fail('C02.delivery_order', f"delivery {n}: got {g[0]}/{g[1]}, expected {e[0]}/{e[1]}")
            break
        gd, ed = g[2], e[2]
        if set(gd) != set(ed):
            res.fail('C02.data_keys', f"delivery {n} ({g[1]}): keys {sorted(gd)}, expected {sorted(ed)}")
            break
        bad = [key for key in gd if not same_value(gd[key], ed[key])]
        if bad:
            res.fail('C02.data', f"delivery {n} ({g[1]}): item {bad[0]!r} is {gd[bad[0]]!r}, expected {ed[bad[0]]!r}")
            break
        if case['kind'] == 'sblock' or (case['kind'] == 'lib' and case['lib'] != 'counter') or (
                case['kind'] == 'cblock' and case['func'] == 'identity'):
            # identity: 'previous' is the old output object, 'value' the assigned object
            for key in ('previous', 'value'):
                if key in gd and gd[key] is not ed[key]:
                    res.fail('C02.identity', f"delivery {n}: {key!r} is an equal object but not the "
                             f"one that was assigned ({gd[key]!r})")
                    break
    if (case['kind'] == 'sblock' or (case['kind'] == 'lib' and case['lib'] not in ('valuepoll', 'initasync'))) and not res.violations:
        # synchronous delivery: the deliveries of assignment k lie between its marks
        if len(marks) != len(assigned):
            res.fail('C02.marks', f"{len(marks)} assignments seen, expected {len(assigned)}")
        else:
            for k, (n0, n1) in enumerate(marks):
                want = [n for n, e in enumerate(expected) if e[3] == k]
                if want != list(range(n0, n1)):
                    res.fail('C02.not_synchronous', f"assignment {k}: deliveries {want} expected "
                             f"between marks {n0}..{n1}")
                    break
    if info.get('silent_none'):
        if info['final'] is not None:
            res.fail('C02.final_output', f"InitAsync without a value and without initdef: output {info['final']!r}")
    elif not same_value(info['final'], cur) and not (info['final'] == cur):
        res.fail('C02.final_output', f"final output {info['final']!r}, expected {cur!r}")

    nev = len(case['on_output']) + len(case['on_every_output'])
    res.nontrivial = (type_pun or fresh_repeat) and repeat and nev >= 2
    res.classes = [case['kind'] if case['kind'] != 'lib' else 'library block ' + case['lib'], f"events={min(nev, 4)}{'+' if nev >= 4 else ''}"]
    if type_pun:
        res.classes.append('equal values of different type')
    if fresh_repeat:
        res.classes.append('equal-not-identical repeat')
    if any(s['filters'] for s in case['on_output'] + case['on_every_output']):
        res.classes.append('filters')
    if case['kind'] == 'sblock' and case['init'] == 'event':
        res.classes.append('initialised by event')
    if case.get('stop_assign'):
        res.classes.append('assignment during the clean-up')
    if case.get('restore'):
        res.classes.append('saved state restored first' + (' (restoration fails after the assignment)'
                                                           if case['restore']['damaged'] else ''))
    if case['kind'] == 'cblock' and any(g > 1 for g in case.get('groups', [])):
        res.classes.append('several puts per evaluation')
    res.outcome = {'assignments': len(assigned), 'deliveries': len(got)}
    return res
