"""C11 - a block never handles two events at the same time (and is never left locked).

Generator: directed event graph over probe relays, Inputs, Counters, two-state FSMs (with an
allowed chained self-event or zero-length timer), Repeat and OutputFunc blocks connected by
on_output / on_every_output / on_enter / on_exit / on_success / forward events with filters
and EventCond; external sequences incl. unknown types and wrong parameters.
Oracle: synchronous depth-first propagation model with per-block busy flags (start-up
included), predicting exactly whether a busy block is hit, every return value and the final
state of every block.
"""
from hypothesis import strategies as st

import edzed

from .. import harness
from ..runner import Result

ID = 'C11'
LEVEL = 'exploration'
BUDGET = {'quick': 4000, 'thorough': 20000}
RULE = ("Case = 2-6 blocks from {relay probe, Input, Counter, 2-state FSM (plain / chained self-event from "
        "its entry action / zero-length timer), Repeat(count=0), OutputFunc} with 0-3 outgoing events each "
        "(forward, on_output, on_every_output, on_enter_S, on_exit_S, events sent by the FSM's exit actions, on_success; destination any block incl. "
        "itself; 1 in 12 of a type unknown to the destination; filter in {none, reject, pass, edit}; event type plain or EventCond(t, None) / "
        "EventCond(None, t)) and an external sequence of <=4 events (normal, unknown type, missing "
        "parameter) followed by one normal event to every block. Compared with the model: start-up "
        "verdict, per-step outcome (return value / EdzedCircuitError / benign exception), Circuit.error, "
        "final state of every block, no block left with its guard set, relay nesting depth <= 1. "
        "Non-trivial = graph with a cycle (or self-loop) reachable from an external event, split into "
        "cases where the model predicts the recursion error and cases where a filter, a condition or an "
        "unchanged output breaks the cycle; distinct by descriptor.")
ASSUMPTIONS = [
    "the guard is tested before an EventCond is evaluated: a conditional event addressed to a busy "
    "block is refused even if it would resolve to 'no event' (DESIGN 4/C11)",
    "Repeat blocks use count=0 so that no asynchronous repetition interferes",
    "a missing parameter is generated only for handlers with explicit keyword parameters (Input, "
    "Counter); OutputFunc looks its arguments up inside the handler, which is documented as fatal",
]

UNDEF = edzed.UNDEF
KINDS = ['relay', 'relay', 'input', 'counter', 'fsm', 'repeat', 'ofunc']
BASE_ETYPE = {'relay': 'x', 'input': 'put', 'counter': 'inc', 'fsm': 'go', 'ofunc': 'put'}
TRIGGERS = {
    'relay': ['fwd'],
    'input': ['on_output'],
    'counter': ['on_output', 'on_every_output'],
    'fsm': ['on_enter_a', 'on_enter_b', 'on_exit_a', 'on_exit_b', 'on_output', 'exit_hook_a', 'exit_hook_b'],
    'repeat': [],
    'ofunc': ['on_success'],
}
FSM_OUT = {'a': 0, 'b': 1}


class Busy(Exception):
    pass


class Unknown(Exception):
    """the destination does not know the event type: EdzedUnknownEvent, a non-fatal error that
    propagates through all the handlers on the way back to the original sender"""


# ---------------------------------------------------------------- generator
@st.composite
def cases(draw):
    n = draw(st.integers(2, 6))
    blocks = []
    for i in range(n):
        kind = draw(st.sampled_from(KINDS))
        b = {'kind': kind, 'edges': []}
        if kind == 'fsm':
            b['variant'] = draw(st.sampled_from(['plain', 'plain', 'chain', 'zero_timer']))
        if kind == 'repeat':
            b['dest'] = draw(st.integers(0, n - 1))
        if kind == 'input' and draw(st.integers(0, 2)) == 0:
            # persistent with a saved state: restored by an event in the first phase of the start-up
            b['saved'] = draw(st.integers(0, 2))
        blocks.append(b)
    for i, b in enumerate(blocks):
        if not TRIGGERS[b['kind']]:
            continue
        for _ in range(draw(st.sampled_from([0, 0, 1, 1, 1, 2, 3]))):
            # biased to forward edges so that about half of the graphs are free of recursion
            forward = i < n - 1 and draw(st.integers(0, 9)) < 6
            b['edges'].append({
                'trigger': draw(st.sampled_from(TRIGGERS[b['kind']])),
                'dst': draw(st.integers(i + 1, n - 1)) if forward else draw(st.integers(0, n - 1)),
                'filter': draw(st.sampled_from(['none', 'none', 'none', 'reject', 'pass', 'edit'])),
                'cond': draw(st.sampled_from([None, None, None, 'tn', 'nt'])),
                # output events normally skip the change from UNDEF; some do not, so that events
                # also travel while the circuit is being initialised
                'nfu': draw(st.integers(0, 9)) < 6,
                # an event of a type the destination does not know (fails non-fatally)
                'bad': draw(st.integers(0, 11)) == 0,
            })
    # a Repeat cannot repeat an EventCond; its own destination edge is plain

    def resolve_repeat(i, seen=()):
        """the plain event type a Repeat forwards = base type of its final destination kind"""
        b = blocks[i]
        if b['kind'] != 'repeat':
            return BASE_ETYPE[b['kind']]
        if i in seen:
            return 'x'
        return resolve_repeat(b['dest'], seen + (i,))
    for i, b in enumerate(blocks):
        if b['kind'] == 'repeat':
            b['etype'] = resolve_repeat(i)
    seq = []
    for _ in range(draw(st.integers(1, 4))):
        i = draw(st.integers(0, n - 1))
        how = draw(st.sampled_from(['normal', 'normal', 'normal', 'unknown', 'noparam']))
        seq.append({'blk': i, 'how': how, 'value': draw(st.integers(0, 2))})
    for i in range(n):
        seq.append({'blk': i, 'how': 'normal', 'value': draw(st.integers(0, 2))})
    return {'blocks': blocks, 'seq': seq}


def strategy(tier):
    return cases()


def etype_of(blocks, i):
    b = blocks[i]
    return b['etype'] if b['kind'] == 'repeat' else BASE_ETYPE[b['kind']]


# ---------------------------------------------------------------- model
class Model:
    def __init__(self, case):
        self.blocks = case['blocks']
        n = len(self.blocks)
        self.busy = [False] * n
        self.inited = [False] * n
        self.step1_done = [False] * n
        self.cur = [UNDEF] * n          # input value / counter value / fsm state / relay count
        self.fsm_out = [UNDEF] * n      # output of an FSM (may lag behind the state after a failed event)
        self.unknown = 0                # non-fatal failures of internal events
        self.hit = False                # a busy block was hit at least once
        self.blocked = 0                # cycles broken by filter / cond / no change

    def send_edges(self, i, trigger, value, previous=None):
        for e in self.blocks[i]['edges']:
            if e['trigger'] != trigger:
                continue
            if previous is UNDEF and trigger in ('on_output', 'on_every_output') and e.get('nfu', True):
                continue        # not_from_undef is the first filter of this output event
            if e['filter'] == 'reject':
                self.blocked += 1
                continue
            self.deliver(e['dst'], e['cond'], value, 'nonexistent' if e.get('bad') else None)

    def deliver(self, i, cond, value, etype=None):
        """event addressed to block i; returns the handler's result"""
        if self.busy[i]:
            self.hit = True
            raise Busy()
        self.busy[i] = True
        try:
            if cond == 'tn' and not value or cond == 'nt' and value:
                self.blocked += 1
                return None
            if not self.inited[i]:
                self.busy[i] = False        # _enable_event
                try:
                    self.init(i)
                finally:
                    self.busy[i] = True
            if etype == 'nonexistent' and self.blocks[i]['kind'] != 'repeat':
                self.unknown += 1
                raise Unknown()
            return self.handle(i, etype or etype_of(self.blocks, i), value)
        finally:
            self.busy[i] = False

    def restore(self, i):
        """first initialisation step: saved state (Input restores it by a 'put' event); a failure
        of the restoration is only logged - unless it is the refusal of a recursive event, which
        has stopped the simulation on its way"""
        if self.step1_done[i]:
            return
        self.step1_done[i] = True
        b = self.blocks[i]
        if b['kind'] == 'input' and b.get('saved') is not None:
            self.inited[i] = True           # initialisation in progress: no early initialisation
            try:
                self.deliver(i, None, b['saved'], 'put')
            except Unknown:
                pass
            finally:
                self.inited[i] = False

    def init(self, i):
        if self.inited[i]:
            return
        self.restore(i)
        self.inited[i] = True
        kind = self.blocks[i]['kind']
        if kind == 'input':
            if self.cur[i] is UNDEF:
                self.deliver(i, None, 0, 'put')         # init_from_value -> event('put')
        elif kind == 'counter':
            # init_from_value is a plain call (not an event): the block is not busy meanwhile
            self.cur[i] = 0
            self.send_edges(i, 'on_output', 0, UNDEF)
            self.send_edges(i, 'on_every_output', 0, UNDEF)
        elif kind == 'relay':
            self.cur[i] = 0
        elif kind == 'fsm':
            # Goto('a') through event(): the block is busy during its own initialisation
            if self.busy[i]:
                raise AssertionError('model: fsm init while busy')
            self.busy[i] = True
            try:
                self.cur[i] = 'a'
                self.fsm_out[i] = FSM_OUT['a']
                self.send_edges(i, 'on_output', FSM_OUT['a'], UNDEF)
                self.send_edges(i, 'on_enter_a', FSM_OUT['a'])
            finally:
                self.busy[i] = False

    def handle(self, i, etype, value):
        b = self.blocks[i]
        kind = b['kind']
        if kind == 'relay':
            self.cur[i] += 1
            self.send_edges(i, 'fwd', value)
            return 'done'
        if kind == 'input':
            prev = self.cur[i]
            if prev is UNDEF or prev != value:
                self.cur[i] = value
                self.send_edges(i, 'on_output', value, prev)
            else:
                self.blocked += 1
            return True
        if kind == 'counter':
            prev = self.cur[i]
            new = value if etype == 'put' else prev + 1
            if new != prev:
                self.cur[i] = new
                self.send_edges(i, 'on_output', new, prev)
            self.send_edges(i, 'on_every_output', new, prev)
            return new
        if kind == 'fsm':
            old = self.cur[i]
            self.send_edges(i, 'exit_hook_' + old, FSM_OUT[old])    # the exit action (may send events)
            self.send_edges(i, 'on_exit_' + old, self.fsm_out[i])
            new = 'b' if old == 'a' else 'a'
            if new == 'b' and b['variant'] in ('chain', 'zero_timer'):
                # 'b' is an intermediate state: no events, no output, but its exit action runs
                # (the block is still handling the event)
                self.cur[i] = 'b'
                self.send_edges(i, 'exit_hook_b', FSM_OUT['b'])
                new = 'a'
            self.cur[i] = new
            if FSM_OUT[new] != self.fsm_out[i]:
                prev = self.fsm_out[i]
                self.fsm_out[i] = FSM_OUT[new]
                self.send_edges(i, 'on_output', FSM_OUT[new], prev)
            self.send_edges(i, 'on_enter_' + new, self.fsm_out[i])
            return True
        if kind == 'repeat':
            if etype != b['etype']:
                return None
            self.deliver(b['dest'], None, value)
            return None
        if kind == 'ofunc':
            self.send_edges(i, 'on_success', value)
            return ['result', value]
        raise AssertionError(kind)

    def startup(self):
        """-> True if the circuit starts, False if a busy block is hit during start-up"""
        try:
            for i in range(len(self.blocks)):
                self.restore(i)
            for i in range(len(self.blocks)):
                if self.blocks[i]['kind'] in ('repeat', 'ofunc'):
                    self.inited[i] = True
                    self.cur[i] = 0
                else:
                    self.init(i)
            return True
        except Busy:
            return False
        except Unknown:
            # any exception leaving an initialisation routine fails the start-up
            return 'unknown'

    def step(self, s):
        i = s['blk']
        kind = self.blocks[i]['kind']
        if s['how'] == 'unknown':
            return None if kind == 'repeat' else ['EXC', 'EdzedUnknownEvent']
        if s['how'] == 'noparam':
            if kind in ('input', 'counter'):
                return ['EXC', 'TypeError']
            return None         # not generated for this kind: skipped
        try:
            return self.deliver(i, None, s['value'])
        except Busy:
            return ['EXC', 'EdzedCircuitError']
        except Unknown:
            return ['EXC', 'EdzedUnknownEvent']


# ---------------------------------------------------------------- real circuit
DEPTH = {}
MAXDEPTH = [0]
EVDEPTH = {}


class Runaway(BaseException):
    """raised by the instrumentation when event() calls of one block nest deeper than any
    documented exception allows; BaseException so that it is not swallowed or wrapped"""


def instrument(blk):
    """count nested event() calls per block (instance attribute, no source hook)"""
    orig = blk.event

    def event(etype, /, **data):
        depth = EVDEPTH[blk.name] = EVDEPTH.get(blk.name, 0) + 1
        try:
            if depth > 3:
                raise Runaway(blk.name)
            return orig(etype, **data)
        finally:
            EVDEPTH[blk.name] -= 1
    blk.event = event


class Relay(edzed.SBlock):
    def __init__(self, *args, on_fwd=None, **kwargs):
        self._fwd = edzed.event_tuple(on_fwd)
        super().__init__(*args, **kwargs)

    def init_regular(self):
        self.set_output(0)

    def _event(self, etype, data):
        if etype != 'x':
            raise edzed.EdzedUnknownEvent(f"{self}: unknown {etype!r}")
        DEPTH[self.name] = DEPTH.get(self.name, 0) + 1
        MAXDEPTH[0] = max(MAXDEPTH[0], DEPTH[self.name])
        try:
            self.set_output(self.output + 1)
            for ev in self._fwd:
                ev.send(self, value=data.get('value'))
            return 'done'
        finally:
            DEPTH[self.name] -= 1


def mkfsm(variant):
    ns = {'STATES': ['a', 'b'], 'EVENTS': [('go', 'a', 'b'), ('go', 'b', 'a')],
          'calc_output': lambda self: FSM_OUT[self.state]}
    if variant == 'zero_timer':
        ns['TIMERS'] = {'b': (0, 'go')}
    if variant == 'chain':
        ns['enter_b'] = lambda self: self.event('go')

    def mkexit(state):
        def exit_action(self):
            for ev in getattr(self, 'x_exit_' + state):
                ev.send(self, value=FSM_OUT[state])
        return exit_action
    ns['exit_a'] = mkexit('a')
    ns['exit_b'] = mkexit('b')
    return type('F' + variant, (edzed.FSM,), ns)


def mkevent(blocks, e, output_event):
    dst = e['dst']
    base = 'nonexistent' if e.get('bad') else etype_of(blocks, dst)
    if e['cond'] == 'tn':
        etype = edzed.EventCond(base, None)
    elif e['cond'] == 'nt':
        etype = edzed.EventCond(None, base)
    else:
        etype = base
    filters = [edzed.not_from_undef] if output_event and e.get('nfu', True) else []
    if e['filter'] == 'reject':
        filters.append(lambda data: False)
    elif e['filter'] == 'pass':
        filters.append(lambda data: 'yes')
    elif e['filter'] == 'edit':
        filters.append(edzed.DataEdit.add(extra=1))
    return edzed.Event(f'b{dst}', etype, efilter=filters)


def execute(case):
    res = Result()
    blocks = case['blocks']
    obs = {'steps': []}

    async def scenario(loop):
        harness.reset()
        DEPTH.clear()
        EVDEPTH.clear()
        MAXDEPTH[0] = 0
        circuit = edzed.get_circuit()
        real = []
        storage = harness.DeepCopyDict()
        for i, b in enumerate(blocks):
            name = f'b{i}'
            kind = b['kind']

            def evs(trigger, output_event=False):
                return [mkevent(blocks, e, output_event) for e in b['edges'] if e['trigger'] == trigger]
            if kind == 'relay':
                blk = Relay(name, on_fwd=evs('fwd'))
            elif kind == 'input':
                blk = edzed.Input(name, initdef=0, on_output=evs('on_output', True),
                                  persistent=b.get('saved') is not None)
                if b.get('saved') is not None:
                    storage[blk.key] = b['saved']
            elif kind == 'counter':
                blk = edzed.Counter(name, on_output=evs('on_output', True),
                                    on_every_output=evs('on_every_output', True))
            elif kind == 'fsm':
                blk = mkfsm(b['variant'])(
                    name, on_output=evs('on_output', True),
                    on_enter_a=evs('on_enter_a'), on_enter_b=evs('on_enter_b'),
                    on_exit_a=evs('on_exit_a'), on_exit_b=evs('on_exit_b'),
                    x_exit_a=evs('exit_hook_a'), x_exit_b=evs('exit_hook_b'))
            elif kind == 'repeat':
                blk = edzed.Repeat(name, dest=f"b{b['dest']}", etype=b['etype'], interval=5, count=0)
            else:
                blk = edzed.OutputFunc(name, func=lambda v: v, on_success=evs('on_success'),
                                       on_error=None)
            instrument(blk)
            real.append(blk)
        if storage:
            circuit.set_persistent_data(storage)
        sim = harness.Running()
        await sim.__aenter__()
        obs['started'] = sim.init_error is None
        if sim.init_error is not None:
            obs['init_error'] = type(circuit.error).__name__
            await sim.stop()
            return
        for s in case['seq']:
            blk = real[s['blk']]
            kind = blocks[s['blk']]['kind']
            if s['how'] == 'noparam' and kind not in ('input', 'counter'):
                obs['steps'].append(None)
                continue
            try:
                if s['how'] == 'unknown':
                    r = edzed.ExtEvent(blk, 'nonexistent').send(s['value'])
                elif s['how'] == 'noparam':
                    r = edzed.ExtEvent(blk, 'put').send()
                else:
                    r = edzed.ExtEvent(blk, etype_of(blocks, s['blk'])).send(s['value'])
                if isinstance(r, tuple):
                    r = list(r)
            except Exception as err:
                r = ['EXC', type(err).__name__]
            except Runaway as err:
                r = ['EXC', f'runaway recursion in {err}']
            obs['steps'].append(r)
            await harness.quiesce(loop)
            if circuit.error is not None:
                break
        obs['error'] = None if circuit.error is None else type(circuit.error).__name__
        # supplementary look at the guard flag where the implementation still has it under this name;
        # the functional test is the final normal event sent to every block
        obs['locked'] = [b.name for b in real if getattr(b, '_event_active', False)]
        final = []
        for b, d in zip(real, blocks):
            final.append(b.state if d['kind'] == 'fsm' else b.output)
        obs['final'] = final
        await sim.stop()

    harness.run_case(scenario)

    model = Model(case)
    started = model.startup()
    if started == 'unknown':
        if obs['started']:
            res.fail('C11.startup', "start-up succeeded although an initialisation routine failed with "
                     "EdzedUnknownEvent")
        res.classes = ['unknown event during start-up']
        return res
    if started != obs['started']:
        res.fail('C11.startup', f"start-up {'succeeded' if obs['started'] else 'failed: ' + str(obs.get('init_error'))}, "
                 f"model predicts {'success' if started else 'a recursive event during start-up'}")
        return res
    if not started:
        if obs.get('init_error') != 'EdzedCircuitError':
            res.fail('C11.startup_error_class', str(obs.get('init_error')))
        res.classes = ['recursion during start-up']
        res.nontrivial = True
        return res
    fatal = False
    for k, s in enumerate(case['seq']):
        if k >= len(obs['steps']):
            res.fail('C11.sequence_cut', f"the simulation stopped before step {k} without a predicted error: {obs['error']}")
            break
        exp = model.step(s)
        got = obs['steps'][k]
        if got != exp:
            res.fail('C11.step', f"step {k} {s}: got {got!r}, expected {exp!r}")
            break
        if exp == ['EXC', 'EdzedCircuitError']:
            fatal = True
            break
    if res.violations:
        return res
    if fatal:
        if obs['error'] != 'EdzedCircuitError':
            res.fail('C11.not_stopped', f"recursive event refused but Circuit.error is {obs['error']}")
    else:
        if obs['error'] is not None:
            res.fail('C11.stopped_without_recursion', f"Circuit.error = {obs['error']}")
        if obs['locked']:
            res.fail('C11.left_locked', f"blocks with the guard still set: {obs['locked']}")
        want = [model.cur[i] if b['kind'] not in ('repeat', 'ofunc') else (0 if b['kind'] == 'repeat' else False)
                for i, b in enumerate(blocks)]
        if obs['final'] != want:
            res.fail('C11.final_state', f"final states {obs['final']}, expected {want}")
    if MAXDEPTH[0] > 1:
        res.fail('C11.nested_handler', f"a relay handled {MAXDEPTH[0]} events at the same time")

    # classification: is there a cycle at all?
    n = len(blocks)
    adj = {i: set() for i in range(n)}
    for i, b in enumerate(blocks):
        for e in b['edges']:
            adj[i].add(e['dst'])
        if b['kind'] == 'repeat':
            adj[i].add(b['dest'])

    def reach(i):
        seen, todo = set(), [i]
        while todo:
            for j in adj[todo.pop()]:
                if j not in seen:
                    seen.add(j)
                    todo.append(j)
        return seen
    cyclic = any(i in reach(i) for i in range(n))
    res.nontrivial = cyclic
    res.classes = ['cyclic graph' if cyclic else 'acyclic graph',
                   'recursion error predicted' if fatal else 'no recursion']
    if cyclic and not fatal:
        res.classes.append('cycle broken by filter/condition/no change')
    if any(s['how'] != 'normal' for s in case['seq']):
        res.classes.append('benign bad event present')
    if model.unknown:
        res.classes.append('internal event refused by its destination (non-fatal)')
    if any(b.get('saved') is not None for b in blocks):
        res.classes.append('state restored by an event during start-up')
    res.outcome = {'fatal': fatal, 'steps': len(obs['steps'])}
    return res
