"""C12 - OutputAsync honours its mode for every arrival pattern.

Generator: mode x guard_time x stop_data x arrivals on a half-unit grid (simultaneous, during
a run, during guard time) x run durations x failing runs x stop instant x stop_timeout.
Oracle: history invariants over the complete log of puts, coroutine starts/ends, result
events and output changes (order-insensitive at equal instants).
"""
import itertools

from hypothesis import strategies as st

import edzed

from .. import harness
from ..runner import Result

ID = 'C12'
LEVEL = 'exploration'
BUDGET = {'quick': 6000, 'thorough': 15000}
RULE = ("Case = mode in {cancel, wait, start} (long and one-letter spelling) x guard_time in {None, 2 s} x "
        "stop_data present/absent x <=4 (random tier <=8) puts on a 0.5 s grid incl. simultaneous arrivals "
        "and arrivals during a run or during the guard time x run durations {1,2,3} s x failing runs x "
        "stop instant x stop_timeout generous (100 s) or tight. Checked on the log of puts, coroutine "
        "start/end/cancel instants, on_success/on_error/on_cancel events (with the 'put' item) and "
        "on_output changes. One case in sixty is a burst of 2-70 puts in 'start' mode whose output function is a "
        "blocking function wrapped in InExecutor (real loop, real threads, all runs meet at one barrier). "
        "Non-trivial = >=2 puts of which one arrives while a run is active or during "
        "guard time; distinct by descriptor.")
ASSUMPTIONS = [
    "with a tight stop_timeout only the weak invariants are asserted (at most one result per put, "
    "exclusivity of runs, output never negative); completion and 'stop_data last' are asserted when "
    "the timeout is generous (the property makes them conditional on stop_timeout)",
    "a run counts as active from the start of the coroutine until the end of its guard time "
    "(that is when the block's task ends); the output is compared with that count",
]

UNDEF = edzed.UNDEF
MODES = ['cancel', 'wait', 'start', 'c', 'w', 's']


@st.composite
def cases(draw, max_puts=8):
    mode = draw(st.sampled_from(MODES))
    guard = draw(st.sampled_from([None, None, 2])) if mode[0] != 's' else None
    n = draw(st.integers(0, max_puts))
    t = 0.0
    puts = []
    for i in range(n):
        t += draw(st.sampled_from([0.0, 0.5, 0.5, 1.0, 1.0, 1.5, 2.0, 2.5, 3.0, 4.5]))
        puts.append({'t': t, 'dur': draw(st.sampled_from([1, 1, 2, 3])),
                     'fail': draw(st.integers(0, 5)) == 0,
                     # a failing run may also fail before its first await: the callable given as 'coro'
                     # is a plain function checking its arguments and returning the coroutine
                     'callfail': draw(st.integers(0, 2)) == 0})
    last = puts[-1]['t'] if puts else 0.0
    stop = draw(st.one_of(st.sampled_from([0.0, last + 0.5, last + 1.0, last + 2.5, last + 30.0]),
                          st.integers(0, 20).map(lambda k: k * 0.5)))
    tight = draw(st.integers(0, 4)) == 0
    return {'mode': mode, 'guard': guard, 'stop_data': draw(st.booleans()),
            'stop_dur': draw(st.sampled_from([1, 2])), 'stop_fail': draw(st.integers(0, 7)) == 0,
            'puts': puts, 'stop': stop,
            'stop_timeout': draw(st.sampled_from([2.0, 2.5, 4.0])) if tight else 100.0,
            'kwargs': draw(st.booleans()),
            # another block is still initialising asynchronously until t = 5: a stop before that
            # instant reaches the output block before its own regular initialisation
            'slow_init': draw(st.integers(0, 3)) == 0,
            # the stop is requested a second time while the clean-up is in progress (no effect expected)
            'second_stop': draw(st.sampled_from([None, None, 0.0, 0.5, 1.5])),
            # another block whose asynchronous clean-up hangs until its own stop_timeout (3 s) expires;
            # the time-outs of the blocks run concurrently, not one after the other
            'slow_other': draw(st.integers(0, 2)) == 0}


# A blocking output function run through edzed.InExecutor (the documented way to use one), on a real
# event loop with real threads.  The oracle is logical, not a stop-watch: every run of a burst waits on
# one threading.Barrier for all the others, so the burst completes if and only if all runs were active
# at the same time ('start' mode: every event starts its own run at once).  The barrier's time-out only
# bounds how long a *failing* run takes.
executor_cases = st.builds(
    lambda n, kw, ex: {'k': 'executor', 'n': n, 'kwargs': kw, 'executor': ex},
    st.sampled_from([2, 7, 24, 40, 40, 70]), st.booleans(), st.sampled_from(['default', 'thread']))


def strategy(tier):
    return st.integers(0, 59).flatmap(lambda i: executor_cases if i == 0 else cases())


def exec_executor(case):
    import asyncio
    import concurrent.futures
    import threading
    res = Result()
    n = case['n']
    barrier = threading.Barrier(n)
    results = []
    outputs = []
    info = {}

    def blocking(*args, **kwargs):
        value = kwargs['value'] if case['kwargs'] else args[0]
        try:
            barrier.wait(timeout=15.0)
        except threading.BrokenBarrierError:
            return ('alone', value)
        return ('together', value)

    async def main():
        harness.reset()
        circuit = edzed.get_circuit()
        coll = harness.Recorder('coll', x_log=results)
        extra = {} if case['executor'] == 'default' else {'executor': concurrent.futures.ThreadPoolExecutor}
        kw = {'f_kwargs': ('value',)} if case['kwargs'] else {'f_args': ('value',)}
        out = edzed.OutputAsync('out', mode='start', coro=edzed.InExecutor(blocking, **extra),
                                on_success=edzed.Event(coll, 'ok'), on_error=edzed.Event(coll, 'err'),
                                on_cancel=edzed.Event(coll, 'cancel'), stop_timeout=60.0,
                                on_output=edzed.Event(harness.Recorder('outs', x_log=outputs), 'out'), **kw)
        task = asyncio.create_task(circuit.run_forever())
        try:
            await circuit.wait_init()
            for i in range(n):
                out.event('put', value=i)
            for _ in range(3500):
                if len(results) >= n or circuit.error is not None:
                    break
                await asyncio.sleep(0.01)
            info['output_idle'] = out.output
            info['error'] = repr(circuit.error) if circuit.error is not None else None
        finally:
            try:
                await circuit.shutdown()
            except BaseException as err:
                info.setdefault('error', repr(err))
            if not task.done():
                task.cancel()

    loop = asyncio.new_event_loop()
    try:
        loop.run_until_complete(main())
    finally:
        loop.close()
    if info.get('error'):
        res.fail('C12.simulation_error', info['error'])
        return res
    got = sorted((r['etype'], r['data'].get('put', {}).get('value'), tuple(r['data'].get('value') or ()))
                 for r in results)
    want = sorted(('ok', i, ('together', i)) for i in range(n))
    if got != want:
        alone = [g for g in got if g[2][:1] == ('alone',)]
        res.fail('C12.start_mode_not_at_once',
                 f"burst of {n} puts in 'start' mode with a blocking function in InExecutor: "
                 f"{len(alone)} run(s) never saw all the others active; "
                 f"{len(got)} results, first differing: {next((g for g in got if g not in want), None)!r}")
    # no run ends before all n are at the barrier, so the number of active runs must have reached n
    peak = max([r['data']['value'] for r in outputs], default=0)
    if got == want and peak != n:
        res.fail('C12.output', f"the output peaked at {peak} while {n} runs were active at the same time")
    if info['output_idle'] != 0:
        res.fail('C12.output', f"output {info['output_idle']} when idle")
    res.nontrivial = n > 32
    res.classes = ['InExecutor burst', 'burst larger than a default thread pool' if n > 32 else 'small burst']
    res.outcome = {'results': len(got)}
    return res


def exhaustive(tier):
    if tier != 'thorough':
        return None
    grid = [0.0, 0.5, 1.0, 1.5, 2.0, 3.0, 4.0]

    def gen():
        for mode in ('cancel', 'wait', 'start'):
            for guard in ((None, 2) if mode != 'start' else (None,)):
                for sd in (False, True):
                    for n in range(0, 4):
                        for times in itertools.combinations_with_replacement(grid, n):
                            for durs in itertools.product((1, 3), repeat=n):
                                for stop in (0.5, 1.5, 2.5, 4.5, 12.0):
                                    yield {'mode': mode, 'guard': guard, 'stop_data': sd,
                                           'stop_dur': 1, 'stop_fail': False,
                                           'puts': [{'t': t, 'dur': d, 'fail': False}
                                                    for t, d in zip(times, durs)],
                                           'stop': stop, 'stop_timeout': 100.0, 'kwargs': False}
    return ("3 modes x guard {None,2} x stop_data x all multisets of <=3 arrivals on the 7-point grid "
            "{0,.5,1,1.5,2,3,4} x durations {1,3} x stop in {.5,1.5,2.5,4.5,12}", gen())


def execute(case):
    if case.get('k') == 'executor':
        return exec_executor(case)
    res = Result()
    log = []        # (t, kind, ...)
    info = {}
    mode = case['mode'][0]
    guard = case['guard'] or 0

    async def scenario(loop):
        import asyncio
        harness.reset()
        circuit = edzed.get_circuit()
        t0 = loop.time()

        def now():
            return loop.time() - t0

        durs = {i: p['dur'] for i, p in enumerate(case['puts'])}
        fails = {i for i, p in enumerate(case['puts']) if p['fail']}
        durs['STOP'] = case['stop_dur']
        if case['stop_fail']:
            fails.add('STOP')

        callfails = {i for i, p in enumerate(case['puts']) if p['fail'] and p.get('callfail')}

        def coro(value, **kw):
            if value in callfails:
                # counts as a run that failed at once
                log.append((now(), 'start', value, kw))
                log.append((now(), 'fail', value))
                raise ValueError(f'run {value}')
            return real_coro(value, **kw)

        async def real_coro(value, **kw):
            log.append((now(), 'start', value, kw))
            try:
                await asyncio.sleep(durs[value])
            except asyncio.CancelledError:
                log.append((now(), 'cancelled', value))
                raise
            if value in fails:
                log.append((now(), 'fail', value))
                raise ValueError(f'run {value}')
            log.append((now(), 'end', value))
            return ('ok', value)

        def reshook(rec):
            log.append((now(), 'res', rec['etype'], rec['data']))

        def outhook(rec):
            log.append((now(), 'out', rec['data']['previous'], rec['data']['value']))
        reslog, outlog = [], []
        resrec = harness.Recorder('res', x_log=reslog, x_hook=reshook)
        harness.Recorder('out', x_log=outlog, x_hook=outhook)
        kwargs = {}
        if case['stop_data']:
            kwargs['stop_data'] = {'value': 'STOP', 'tag': 'bye', 'source': 'the end'}
        if case['guard'] is not None:
            kwargs['guard_time'] = case['guard']
        if case['kwargs']:
            kwargs['f_kwargs'] = ['tag']
        oa = edzed.OutputAsync(
            'oa', coro=coro, mode=case['mode'], stop_timeout=case['stop_timeout'],
            on_success=edzed.Event(resrec, 'success'), on_error=edzed.Event('res', 'error'),
            on_cancel=edzed.Event(resrec, 'cancel'), on_output=edzed.Event('out', 'o'), **kwargs)
        if case.get('slow_other'):
            class Hanging(edzed.AddonAsync, edzed.SBlock):
                def init_regular(self):
                    self.set_output(0)

                async def stop_async(self):
                    await asyncio.sleep(1000)
            Hanging('hanging', stop_timeout=3)
        if case.get('slow_init'):
            async def slow():
                await asyncio.sleep(5)
                return 1
            edzed.InitAsync('slowinit', init_coro=[slow], init_timeout=8)
        sim = harness.Running(wait=not case.get('slow_init'))
        await sim.__aenter__()
        if case.get('slow_init'):
            await asyncio.sleep(0)      # the simulation task has started the blocks
        if sim.init_error is not None:
            info['init_error'] = repr(circuit.error)
            await sim.stop()
            return
        ev = edzed.ExtEvent(oa)
        for i, p in enumerate(case['puts']):
            if p['t'] >= case['stop']:
                break
            await harness.vloop.sleep_until(loop, t0 + p['t'])
            log.append((now(), 'put', i))
            r = ev.send(i, tag=f't{i}')
            if r is not None:
                info['put_result'] = repr(r)
        await harness.vloop.sleep_until(loop, t0 + case['stop'])
        info['error'] = repr(circuit.error) if circuit.error is not None else None
        log.append((now(), 'STOP'))
        if case.get('second_stop') is not None:
            async def again():
                await asyncio.sleep(case['second_stop'])
                try:
                    await circuit.shutdown()
                except BaseException:
                    pass
            second = asyncio.create_task(again())
            err = await sim.stop()
            await second
        else:
            err = await sim.stop()
        log.append((now(), 'STOPPED', oa.output))
        info['stop_error'] = repr(err) if err is not None else None
        # let anything that outlived the simulation show itself
        await harness.vloop.sleep_until(loop, loop.time() + 10)
        await harness.quiesce(loop)
        info['late'] = log[[x[1] for x in log].index('STOPPED') + 1:]
        info['final_output'] = oa.output

    harness.run_case(scenario)
    if 'init_error' in info:
        res.fail('C12.init_failed', info['init_error'])
        return res
    if info['error'] or info['stop_error']:
        res.fail('C12.simulation_error', info['error'] or info['stop_error'])
    if 'put_result' in info:
        res.fail('C12.put_result', f"put returned {info['put_result']}")

    generous = case['stop_timeout'] >= 100
    puts = [e[2] for e in log if e[1] == 'put']                       # arrival order
    put_t = {e[2]: e[0] for e in log if e[1] == 'put'}
    t_stop = next(e[0] for e in log if e[1] == 'STOP')
    t_stopped = next(e[0] for e in log if e[1] == 'STOPPED')
    order = list(puts) + (['STOP'] if case['stop_data'] else [])
    if case['stop_data']:
        put_t['STOP'] = t_stop
    starts = [(e[0], e[2]) for e in log if e[1] == 'start']
    finish = {e[2]: (e[0], e[1]) for e in log if e[1] in ('end', 'fail', 'cancelled')}
    results = {}
    for e in log:
        if e[1] == 'res':
            results.setdefault(e[3]['put'].get('value'), []).append(e)

    # I1 exactly one result per accepted event, with the original data
    for v in order:
        rs = results.get(v, [])
        if len(rs) > 1 or (generous and len(rs) != 1):
            res.fail('C12.one_result', f"event {v!r}: {len(rs)} results {[r[2] for r in rs]}")
            continue
        if not rs:
            continue
        _, _, kind, data = rs[0]
        want_put = ({'value': 'STOP', 'tag': 'bye', 'source': 'the end'} if v == 'STOP'
                    else {'value': v, 'tag': f't{v}', 'source': '_ext_'})
        if data.get('put') != want_put:
            res.fail('C12.put_item', f"event {v!r}: result carries put={data.get('put')!r}, expected {want_put!r}")
        if data.get('source') != 'oa' or data.get('trigger') != kind:
            res.fail('C12.result_data', f"event {v!r}: {data!r}")
        fin = finish.get(v)
        if kind == 'success':
            if fin is None or fin[1] != 'end' or data.get('value') != ('ok', v):
                res.fail('C12.result_kind', f"event {v!r}: success, run: {fin}, value {data.get('value')!r}")
        elif kind == 'error':
            if fin is None or fin[1] != 'fail' or not isinstance(data.get('error'), ValueError):
                res.fail('C12.result_kind', f"event {v!r}: error, run: {fin}, error {data.get('error')!r}")
        elif kind == 'cancel':
            if fin is not None and fin[1] != 'cancelled':
                res.fail('C12.result_kind', f"event {v!r}: reported cancelled but the run {fin}")
            if mode != 'c' and generous:
                res.fail('C12.cancel_outside_cancel_mode', f"event {v!r} cancelled in mode {case['mode']}")
    for v in results:
        if v not in order:
            res.fail('C12.invented_result', f"result for unknown event {v!r}")
    for t, v in starts:
        if v not in order or [s[1] for s in starts].count(v) > 1:
            res.fail('C12.start_count', f"run for {v!r} started {[s[1] for s in starts].count(v)} times")
        if case['kwargs']:
            kw = next(e[3] for e in log if e[1] == 'start' and e[2] == v)
            if kw != {'tag': 'bye' if v == 'STOP' else f't{v}'}:
                res.fail('C12.f_kwargs', f"run {v!r} got keyword arguments {kw!r}")

    # mode specific
    started = [v for _, v in starts]
    if mode == 'w':
        if generous and started != order:
            res.fail('C12.wait_order', f"runs started in order {started}, arrivals {order}")
        elif started != order[:len(started)]:
            res.fail('C12.wait_order', f"runs started in order {started}, arrivals {order}")
    if mode in ('w', 'c'):
        # one at a time, separated by the guard time
        for (t1, v1), (t2, v2) in zip(starts, starts[1:]):
            f1 = finish.get(v1)
            if f1 is None or t2 < f1[0] - 1e-9:
                res.fail('C12.overlap', f"run {v2!r} started at {t2} while run {v1!r} was active (ended {f1})")
            elif t2 < f1[0] + guard - 1e-9:
                res.fail('C12.guard_time', f"run {v2!r} started at {t2}, previous run {v1!r} ended at "
                         f"{f1[0]} ({f1[1]}), guard_time {guard}")
    if mode == 'c':
        for v, (t, how) in finish.items():
            if how != 'cancelled':
                continue
            k = order.index(v)
            newer = [w for w in order[k + 1:] if put_t[w] <= t + 1e-9]
            if not newer and generous:
                res.fail('C12.cancelled_without_newer', f"run {v!r} cancelled at {t} but no newer event had arrived")
        if generous and order:
            last = order[-1]
            rs = results.get(last, [])
            if rs and rs[0][2] == 'cancel':
                res.fail('C12.latest_cancelled', f"the most recent event {last!r} was cancelled")
            if last not in started:
                res.fail('C12.latest_not_run', f"the most recent event {last!r} was never started")
    if mode == 's':
        for t, v in starts:
            if v != 'STOP' and abs(t - put_t[v]) > 1e-9:
                res.fail('C12.start_mode_delay', f"event {v!r} arrived at {put_t[v]}, run started at {t}")
        if generous:
            missing = [v for v in order if v not in started]
            if missing:
                res.fail('C12.start_mode_missing', f"never started: {missing}")
    if case['stop_data'] and generous:
        if not starts or starts[-1][1] != 'STOP':
            res.fail('C12.stop_data_last', f"runs in order of start: {started}")
        else:
            ts = starts[-1][0]
            for v, (t, how) in finish.items():
                if v != 'STOP' and t > ts + 1e-9:
                    res.fail('C12.stop_data_last', f"run {v!r} ended at {t}, stop_data started at {ts}")
    if not generous:
        # the time-out cut the clean-up short: queued events may be lost, but a run that was started
        # ends with exactly one result, the output returns to 0 and nothing goes on afterwards
        for t, v in starts:
            if len(results.get(v, [])) != 1:
                res.fail('C12.started_run_without_result', f"run {v!r} was started at {t} but has "
                         f"{len(results.get(v, []))} results (stop_timeout {case['stop_timeout']})")
        if info['final_output'] != 0:
            res.fail('C12.output_not_zero', f"output {info['final_output']} after the end (tight stop_timeout)")
        if info['late']:
            res.fail('C12.activity_after_stop', f"{info['late'][:3]}")
        # The stop tasks of all blocks are awaited one after another, longest stop_timeout first, each
        # with what is left of its own limit: the clean-up as a whole is bounded by the largest
        # stop_timeout counted from the stop request (not by their sum). A guard time is exempt: it
        # is protected from cancellation and may outlast the limit.
        bound = max(case['stop_timeout'], 3.0 if case.get('slow_other') else 0.0)
        if not guard:
            last = max([e[0] for e in log if e[1] in ('start', 'end', 'fail', 'cancelled', 'res')] or [t_stop])
            if last > t_stop + bound + 1e-6:
                res.fail('C12.cleanup_exceeds_stop_timeout', f"activity at {last}, stop requested at {t_stop}, "
                         f"largest stop_timeout {bound}")
            elif t_stopped - t_stop > bound + 1e-6:
                res.fail('C12.cleanup_exceeds_stop_timeout', f"clean-up took {t_stopped - t_stop} s, largest "
                         f"stop_timeout {bound}")
    if not case['stop_data'] and 'STOP' in started:
        res.fail('C12.invented_stop_data', "a stop_data run without stop_data")

    # output == number of active runs
    outs = [(e[0], e[2], e[3]) for e in log if e[1] == 'out' and e[2] is not UNDEF]
    cur = 0
    for t, prev, val in outs:
        if prev != cur or abs(val - prev) != 1 or val < 0 or (mode != 's' and val > 1):
            res.fail('C12.output_step', f"t={t}: output {prev!r} -> {val!r} (tracked {cur})")
            break
        cur = val
    if generous:
        expected = sorted([(t, +1) for t, _ in starts]
                          + [(finish[v][0] + guard, -1) for _, v in starts if v in finish])
        observed = sorted((t, val - prev) for t, prev, val in outs)
        if len(expected) != len(observed) or any(
                abs(a[0] - b[0]) > 1e-9 or a[1] != b[1] for a, b in zip(expected, observed)):
            res.fail('C12.output_count', f"output changes {observed}, expected from the runs {expected}")
        if info['final_output'] != 0 or cur != 0:
            res.fail('C12.output_not_zero', f"output {info['final_output']} when idle after stop")
        if info['late']:
            res.fail('C12.activity_after_stop', f"{info['late'][:3]}")
        if t_stopped - t_stop > case['stop_timeout'] + 1e-9:
            res.fail('C12.stop_timeout', f"clean-up took {t_stopped - t_stop}")

    # classification
    busy = False
    for v in puts:
        for t, w in starts:
            f = finish.get(w)
            if w != v and t <= put_t[v] and (f is None or put_t[v] < f[0] + guard):
                busy = True
    res.nontrivial = len(puts) >= 2 and busy
    res.classes = [f"mode={mode}", 'generous' if generous else 'tight stop_timeout']
    if case.get('slow_init') and case['stop'] < 5:
        res.classes.append('stopped during start-up')
    if case.get('second_stop') is not None:
        res.classes.append('second stop request during clean-up')
    if case.get('slow_other'):
        res.classes.append('another block with a hanging asynchronous clean-up')
    if guard:
        res.classes.append('guard_time')
    if case['stop_data']:
        res.classes.append('stop_data')
    if busy:
        res.classes.append('arrival while busy')
    if any(f[1] == 'cancelled' for f in finish.values()):
        res.classes.append('a run was cancelled')
    if len(set(put_t[v] for v in puts)) < len(puts):
        res.classes.append('simultaneous arrivals')
    res.outcome = {'puts': len(puts), 'starts': len(starts),
                   'results': sorted((str(v), r[0][2]) for v, r in results.items())}
    return res
