"""C07 - TimeDate and TimeSpan outputs follow the wall clock.

The virtual wall clock (vf/vwall.py) is driven by the virtual loop clock; every clock read
costs a generated latency, wake-ups are late by a generated latency, blocking work after a
(re)configuration is modelled by advancing the clock.  Oracle: independent calendar
predicate in integer microseconds, sampled away from the boundaries.
"""
import datetime as _dt

from hypothesis import strategies as st

import edzed

from .. import harness
from .. import vwall
from ..runner import Result

ID = 'C07'
LEVEL = 'exploration'
BUDGET = {'quick': 2000, 'thorough': 4000}
RULE = ("Case = 1-5 TimeDate / TimeSpan blocks in local (UTC+offset) and UTC mode with generated times "
        "(0-3 ranges: wrapping, equal endpoints, microsecond endpoints, on and off the hour), dates (incl. Feb 29 "
        "and Dec 31 - Jan 1), weekdays (0-7) and spans around the start instant (also reversed and zero-length ones, which are never active); start instant around Dec 31, "
        "Feb 28/29 or mid-year at a boundary minus {0, 1 us ... 5 ms, seconds, an hour}; clock-read latency "
        "1-50 us, wake-up latency 0-2 ms, blocking work of 0-50 ms after a (re)configuration; history of 3-30 "
        "steps: sleeps up to 11 h, waits until just after a boundary, 'reconfig' events placed 0-3 ms before/after a "
        "boundary of the same or another block, forward clock jumps of 30 s - 1 h. Outputs are sampled after every "
        "step, never within 60 ms of a boundary and not during the hour after a jump. Non-trivial = the samples "
        "straddle >=1 boundary and (the start or a reconfig lies within 5 ms of a boundary, or a jump occurred); "
        "distinct by descriptor.")
ASSUMPTIONS = [
    "the local time zone is UTC plus a fixed offset (no DST transitions of a real tz database)",
    "every wall-clock read costs at least 1 us of virtual time (a free clock makes cron's adaptive "
    "overhead estimate crawl in nanosecond steps, which no real CPU can do)",
    "samples closer than 60 ms to a configured boundary (or to midnight) are skipped; the property "
    "allows a few milliseconds plus the modelled latencies",
]

DAY = 86400 * 10 ** 6
EPOCH = _dt.datetime(1970, 1, 1)
BASES = [[2024, 12, 31], [2024, 2, 28], [2025, 2, 28], [2024, 6, 15], [2023, 12, 31], [2024, 2, 29], [2026, 3, 8]]
L_US = 60_000


# ---------------------------------------------------------------- oracle
def in_times(tod, ranges):
    for a, b in ranges:
        if a < b:
            if a <= tod < b:
                return True
        elif a == b:
            return True
        elif tod >= a or tod < b:
            return True
    return False


def in_dates(md, ranges):
    for a, b in ranges:
        a, b = tuple(a), tuple(b)
        if a <= b:
            if a <= md <= b:
                return True
        elif md >= a or md <= b:
            return True
    return False


def td_expected(cfg, us):
    if cfg['times'] is None and cfg['dates'] is None and cfg['weekdays'] is None:
        return False
    moment = EPOCH + _dt.timedelta(microseconds=us)
    if cfg['times'] is not None and not in_times(us % DAY, cfg['times']):
        return False
    if cfg['dates'] is not None and not in_dates((moment.month, moment.day), cfg['dates']):
        return False
    if cfg['weekdays'] is not None:
        wd = (moment.toordinal() - 1) % 7 + 1       # Monday = 1 ... Sunday = 7
        if wd not in {7 if w == 0 else w for w in cfg['weekdays']}:
            return False
    return True


def ts_expected(cfg, us):
    return any(a <= us < b for a, b in cfg['spans'])


def boundaries_tod(cfg):
    """time-of-day boundaries (us) of a block incl. midnight"""
    pts = {0}
    if cfg['kind'] == 'td':
        for a, b in cfg['times'] or []:
            pts.update((a, b))
    else:
        for a, b in cfg['spans']:
            pts.update((a % DAY, b % DAY))
    return sorted(pts)


def near_boundary(cfg, us):
    tod = us % DAY
    for p in boundaries_tod(cfg):
        d = abs(tod - p)
        if min(d, DAY - d) < L_US:
            return True
    return False


# ---------------------------------------------------------------- generator
def tod_strategy(around):
    return st.one_of(
        st.integers(0, 23).map(lambda h: h * 3600 * 10 ** 6),
        st.tuples(st.integers(0, 23), st.integers(0, 59)).map(lambda hm: (hm[0] * 3600 + hm[1] * 60) * 10 ** 6),
        st.integers(0, DAY - 1),
        st.just(around), st.just(around),
        st.just(0),         # midnight as an end point (every TimeDate is also registered for midnight)
        st.sampled_from([(23 * 3600 + 30 * 60) * 10 ** 6, (23 * 3600 + 59 * 60 + 59) * 10 ** 6 + 999_000,
                         (23 * 3600 + 5 * 60) * 10 ** 6, 30 * 60 * 10 ** 6]),
        st.sampled_from([1, -1, 500_000, -2_000_000]).map(lambda d: (around + d) % DAY),
    )


@st.composite
def td_cfg(draw, around):
    cfg = {'kind': 'td', 'times': None, 'dates': None, 'weekdays': None}
    with_dates = draw(st.integers(0, 9)) < 3
    with_weekdays = draw(st.integers(0, 9)) < 3
    # a block that depends on the calendar only changes at midnight and nowhere else
    if draw(st.integers(0, 9)) < (5 if with_dates or with_weekdays else 8):
        cfg['times'] = [[draw(tod_strategy(around)), draw(tod_strategy(around))]
                        for _ in range(draw(st.integers(0, 3)))]
    if with_dates:
        md = st.tuples(st.integers(1, 12), st.integers(1, 28)).map(list)
        cfg['dates'] = [[draw(md), draw(md)] for _ in range(draw(st.integers(0, 2)))]
        extra = draw(st.sampled_from([None, [[12, 31], [1, 1]], [[2, 29], [2, 29]], [[2, 28], [3, 1]],
                                      [[12, 31], [12, 31]]]))
        if extra:
            cfg['dates'].append(extra)
    if with_weekdays:
        cfg['weekdays'] = draw(st.lists(st.integers(0, 7), unique=True, max_size=5))
    return cfg


@st.composite
def ts_cfg(draw, start_us):
    off = st.one_of(st.integers(-2 * 86400, 3 * 86400), st.integers(-3600, 7200),
                    st.integers(-600, 600).map(lambda m: m * 60))
    spans = []
    for _ in range(draw(st.integers(0, 3))):
        a = start_us + draw(off) * 10 ** 6 + draw(st.sampled_from([0, 0, 500_000, 1]))
        b = start_us + draw(off) * 10 ** 6 + draw(st.sampled_from([0, 0, 500_000, 1]))
        shape = draw(st.integers(0, 5))
        if shape == 0:
            spans.append([max(a, b), min(a, b)])    # reversed or zero-length: date-time ranges never wrap
            continue
        if shape == 1:
            spans.append([a, a])
            continue
        if a == b:
            b += 3600 * 10 ** 6
        spans.append([min(a, b), max(a, b)])
    return {'kind': 'ts', 'spans': spans}


@st.composite
def cases(draw):
    base = draw(st.sampled_from(BASES))
    bnd = draw(st.one_of(st.integers(0, 23).map(lambda h: h * 3600 * 10 ** 6),
                         st.tuples(st.integers(0, 23), st.integers(0, 59)).map(
                             lambda hm: (hm[0] * 3600 + hm[1] * 60) * 10 ** 6),
                         st.integers(0, DAY - 1)))
    eps_us = draw(st.sampled_from([0, 1, 50, 200, 1000, 2000, 5000, 500_000, -1, -1000, 100 * 10 ** 6,
                                   3000 * 10 ** 6, 30 * 10 ** 6]))
    offset = draw(st.sampled_from([0, 0, 7200, -18000]))
    base_us = int((_dt.datetime(*base) - EPOCH).total_seconds()) * 10 ** 6
    start_local_us = base_us + bnd - eps_us     # the block time base in which 'bnd' is a boundary
    nb = draw(st.integers(1, 5))
    blocks = []
    for _ in range(nb):
        utc = draw(st.integers(0, 3)) == 0
        ref = start_local_us - offset * 10 ** 6 if utc else start_local_us
        if draw(st.integers(0, 3)) == 0:
            cfg = draw(ts_cfg(ref))
        else:
            cfg = draw(td_cfg(bnd if not utc else (bnd - offset * 10 ** 6) % DAY))
        cfg['utc'] = utc
        blocks.append(cfg)
    link = None
    if nb >= 2 and draw(st.integers(0, 2)) == 0:
        # an output change of one block reconfigures another block of the scheduler (synchronously, i.e.
        # also from inside the scheduler's wake-up)
        src = draw(st.integers(0, nb - 1))
        # preferably a block served by the same scheduler (local / UTC)
        same = [j for j in range(nb) if j != src and blocks[j]['utc'] == blocks[src]['utc']]
        others = [j for j in range(nb) if j != src]
        dst = draw(st.sampled_from(same)) if same and draw(st.integers(0, 4)) else draw(st.sampled_from(others))
        if blocks[dst]['kind'] == 'td':
            new = draw(td_cfg(draw(st.one_of(st.just(bnd), st.integers(0, DAY - 1)))))
        else:
            new = {'kind': 'ts', 'spans': None, 'rel': [
                [draw(st.sampled_from([-7200, -1, 0, 1, 600])), draw(st.sampled_from([500, 1000, 3_000_000])),
                 draw(st.sampled_from([3600, 86400, 7200 + 1, 3, 0, -3600]))]
                for _ in range(draw(st.integers(0, 2)))]}
        link = {'src': src, 'dst': dst, 'cfg': new}
    steps = []
    # clock jumps blind the oracle for an hour each: half of the cases go without
    jumpy = draw(st.booleans())
    for _ in range(draw(st.one_of(st.integers(2, 10), st.integers(2, 10), st.integers(10, 30)))):
        r = draw(st.integers(0, 19))
        if not jumpy and 3 <= r <= 5:
            r = 19
        if r <= 2:
            i = draw(st.integers(0, nb - 1))
            newb = draw(st.one_of(st.just(bnd), st.integers(0, DAY - 1)))
            if blocks[i]['kind'] == 'td':
                new = draw(td_cfg(newb))
            else:
                new = {'kind': 'ts', 'spans': None, 'rel': [
                    [draw(st.sampled_from([-7200, -1, 0, 0, 1, 600])), draw(st.sampled_from([500, 1000, 3_000_000])),
                     draw(st.sampled_from([3600, 86400, 7200 + 1, 7200 + 4, 3, 0, -86400]))]
                    for _ in range(draw(st.integers(0, 2)))]}
            steps.append({'op': 'reconfig', 'blk': i, 'cfg': new,
                          'place': draw(st.one_of(st.none(), st.tuples(
                              st.integers(0, nb - 1), st.integers(0, 7),
                              st.sampled_from([0, 1, 100, 1000, 3000, -100, -2000, 10 ** 6, 10 ** 7,
                                               25 * 10 ** 6])).map(list))),
                          'cost_ms': draw(st.sampled_from([0, 0, 1, 5, 30]))})
            if draw(st.booleans()):
                # then watch a boundary of the new configuration (0 = midnight)
                steps.append({'op': 'to_boundary', 'blk': i, 'which': draw(st.sampled_from([0, 0, 1, 2, 3, 4])),
                              'after_ms': draw(st.sampled_from([70, 500, 61]))})
                # ... and the same time of day on the following days (calendar conditions)
                for _ in range(draw(st.integers(0, 3))):
                    steps.append({'op': 'sleep', 'seconds': 86400.5})
        elif r <= 3:
            steps.append({'op': 'jump', 'seconds': draw(st.sampled_from([30, 600, 3599, 3600, 1800]))})
        elif r <= 4:
            # a jump at a chosen time of day (e.g. across midnight while an alarm of the last hour is pending)
            steps.append({'op': 'jump_at', 'tod': draw(st.sampled_from([23 * 3600 + 600, 23 * 3600 + 3000,
                                                                        22 * 3600 + 1800, 11 * 3600 + 3540])),
                          'seconds': draw(st.sampled_from([3600, 3000, 1800, 3599]))})
        elif r == 5:
            # a forward jump that skips a boundary of some block
            steps.append({'op': 'jump_over', 'blk': draw(st.integers(0, nb - 1)), 'which': draw(st.integers(0, 7)),
                          'before_s': draw(st.sampled_from([5, 25, 500, 3000])),
                          'seconds': draw(st.sampled_from([30, 600, 3600]))})
        elif r <= 9:
            steps.append({'op': 'to_boundary', 'blk': draw(st.integers(0, nb - 1)), 'which': draw(st.integers(0, 7)),
                          'after_ms': draw(st.sampled_from([70, 500, 61]))})
        else:
            steps.append({'op': 'sleep', 'seconds': draw(st.sampled_from([7, 431.7, 3333, 17000, 40000, 86400.5]))})
    return {'base': base, 'bnd': bnd, 'eps_us': eps_us, 'offset': offset,
            'read_latency_us': draw(st.sampled_from([1, 3, 20, 50])),
            'wake_latency_us': draw(st.sampled_from([0, 0, 500, 2000])),
            'init_cost_ms': draw(st.sampled_from([0, 0, 1, 3, 20, 50])),
            'blocks': blocks, 'steps': steps, 'link': link}


def strategy(tier):
    return cases()


def exhaustive(tier):
    """sub-millisecond grid of start instants x latency grid around one boundary"""
    if tier != 'thorough':
        return None

    def gen():
        for eps in range(-2000, 2001, 50):
            for lat in (1, 20, 50):
                for cost in (0, 1, 3, 20):
                    for wake in (0, 2000):
                        yield {'base': [2024, 6, 15], 'bnd': (12 * 3600 + 30 * 60) * 10 ** 6, 'eps_us': eps,
                               'offset': 0, 'read_latency_us': lat, 'wake_latency_us': wake, 'init_cost_ms': cost,
                               'blocks': [{'kind': 'td', 'times': [[(12 * 3600 + 30 * 60) * 10 ** 6, 13 * 3600 * 10 ** 6]],
                                           'dates': None, 'weekdays': None, 'utc': False},
                                          {'kind': 'td', 'times': [[0, (12 * 3600 + 30 * 60) * 10 ** 6]],
                                           'dates': None, 'weekdays': None, 'utc': False}],
                               'steps': [{'op': 'sleep', 'seconds': 7}, {'op': 'sleep', 'seconds': 431.7},
                                         {'op': 'to_boundary', 'blk': 0, 'which': 2, 'after_ms': 70},
                                         {'op': 'sleep', 'seconds': 3333}]}
    return ("start instants on a 50 us grid from -2 ms to +2 ms around the boundary 12:30 x clock-read latency "
            "{1,20,50} us x blocking init work {0,1,3,20} ms x wake-up latency {0,2} ms", gen())


# ---------------------------------------------------------------- executor
def us_to_list7(us):
    m = EPOCH + _dt.timedelta(microseconds=us)
    return [m.year, m.month, m.day, m.hour, m.minute, m.second, m.microsecond]


def tod_to_list(us):
    s, u = divmod(us, 10 ** 6)
    return [s // 3600, (s // 60) % 60, s % 60, u]


def kwargs_of(cfg):
    if cfg['kind'] == 'td':
        return {'times': None if cfg['times'] is None else [[tod_to_list(a), tod_to_list(b)] for a, b in cfg['times']],
                'dates': cfg['dates'], 'weekdays': cfg['weekdays']}
    return {'span': [[us_to_list7(a), us_to_list7(b)] for a, b in cfg['spans']]}


class Slow(edzed.SBlock):
    """other blocks' start-up work: blocks the event loop for x_cost seconds"""
    def init_regular(self):
        self.x_clock.advance(self.x_cost)
        self.set_output(0)


def execute(case):
    res = Result()
    obs = {'samples': [], 'skipped': 0}
    offset_us = case['offset'] * 10 ** 6
    base_us = int((_dt.datetime(*case['base']) - EPOCH).total_seconds()) * 10 ** 6
    start_local_us = base_us + case['bnd'] - case['eps_us']
    start_utc_us = start_local_us - offset_us
    cfgs = [dict(b) for b in case['blocks']]

    async def scenario(loop):
        wall = loop.vwall
        clock = loop.vclock
        if case['wake_latency_us']:
            loop.vselector.wake_latency = lambda: case['wake_latency_us'] / 1e6
        harness.reset()
        circuit = edzed.get_circuit()
        real = []
        link = case.get('link')
        for i, cfg in enumerate(cfgs):
            kw = {}
            if link and link['src'] == i:
                kw['on_output'] = edzed.Event('lnk', 'fire', efilter=edzed.not_from_undef)
            if cfg['kind'] == 'td':
                real.append(edzed.TimeDate(f't{i}', utc=cfg['utc'], **kwargs_of(cfg), **kw))
            else:
                real.append(edzed.TimeSpan(f't{i}', utc=cfg['utc'], **kwargs_of(cfg), **kw))
        if case['init_cost_ms']:
            Slow('slow', x_cost=case['init_cost_ms'] / 1000, x_clock=clock)
        jump_until = [None]
        last_expected = [None] * len(cfgs)

        def now_us(cfg):
            return wall.peek_us() if cfg['utc'] else wall.peek_us() + offset_us

        def sample(tag):
            if circuit.error is not None:
                obs['error'] = repr(circuit.error)
                return
            if jump_until[0] is not None and clock.now < jump_until[0]:
                obs['skipped'] += 1
                return
            for i, cfg in enumerate(cfgs):
                us = now_us(cfg)
                if near_boundary(cfg, us):
                    obs['skipped'] += 1
                    continue
                exp = td_expected(cfg, us) if cfg['kind'] == 'td' else ts_expected(cfg, us)
                got = real[i].output
                if last_expected[i] is not None and last_expected[i] != exp:
                    obs['straddled'] = True
                last_expected[i] = exp
                obs['samples'].append((tag, i, us, got, exp))

        def new_config(i, new):
            """-> keyword arguments of the reconfig event; the oracle follows the new configuration"""
            new = dict(new)
            new['utc'] = cfgs[i]['utc']
            if new['kind'] == 'ts' and new.get('spans') is None:
                ref = now_us(new)
                new['spans'] = [[ref + a * 10 ** 6 + u, ref + a * 10 ** 6 + u + d * 10 ** 6]
                                for a, u, d in new['rel']]
            cfgs[i] = new
            last_expected[i] = None
            return kwargs_of(new)

        if link:
            class Link(edzed.SBlock):
                def init_regular(self):
                    self.set_output(0)

                def _event_fire(self, **_data):
                    obs['link_fired'] = obs.get('link_fired', 0) + 1
                    edzed.Event(real[link['dst']], 'reconfig').send(self, **new_config(link['dst'], link['cfg']))
            Link('lnk')

        sim = harness.Running()
        await sim.__aenter__()
        if sim.init_error is not None:
            obs['init_error'] = repr(circuit.error)
            await sim.stop()
            return
        await __import__('asyncio').sleep(0.2)
        sample('start')
        for k, step in enumerate(case['steps']):
            if circuit.error is not None:
                break
            op = step['op']
            if op == 'sleep':
                await __import__('asyncio').sleep(step['seconds'])
            elif op == 'jump':
                wall.jump(step['seconds'])
                jump_until[0] = clock.now + 3600 + 1
                obs['jumped'] = True
            elif op == 'jump_over':
                cfg = cfgs[step['blk']]
                pts = boundaries_tod(cfg)
                p = pts[step['which'] % len(pts)]
                delta = (p - now_us(cfg) % DAY) % DAY - step['before_s'] * 10 ** 6
                if delta > 0:
                    await __import__('asyncio').sleep(delta / 1e6)
                wall.jump(step['seconds'])
                jump_until[0] = clock.now + 3600 + 1
                obs['jumped'] = True
            elif op == 'jump_at':
                delta = (step['tod'] * 10 ** 6 - now_us(cfgs[0]) % DAY) % DAY
                await __import__('asyncio').sleep(delta / 1e6)
                wall.jump(step['seconds'])
                jump_until[0] = clock.now + 3600 + 1
                obs['jumped'] = True
            elif op == 'to_boundary':
                cfg = cfgs[step['blk']]
                pts = boundaries_tod(cfg)
                p = pts[step['which'] % len(pts)]
                delta = (p - now_us(cfg) % DAY) % DAY
                await __import__('asyncio').sleep(delta / 1e6 + step['after_ms'] / 1000)
            else:
                i = step['blk']
                new = dict(step['cfg'])
                new['utc'] = cfgs[i]['utc']
                if step['place'] is not None:
                    tgt = cfgs[step['place'][0]]
                    pts = boundaries_tod(tgt)
                    p = pts[step['place'][1] % len(pts)]
                    delta = (p - now_us(tgt) % DAY) % DAY - step['place'][2]
                    if delta > 0:
                        await __import__('asyncio').sleep(delta / 1e6)
                    if abs(step['place'][2]) <= 5000:
                        obs['near_reconfig'] = True
                edzed.ExtEvent(real[i], 'reconfig').send(**new_config(i, new))
                if step['cost_ms']:
                    clock.advance(step['cost_ms'] / 1000)
                await __import__('asyncio').sleep(0.2)
            sample(f'step {k} {op}')
        obs['error'] = None if circuit.error is None else repr(circuit.error)
        await sim.stop()

    harness.run_case(scenario, wall_start=EPOCH + _dt.timedelta(microseconds=start_utc_us),
                     read_latency_us=case['read_latency_us'], local_offset_s=case['offset'])
    if 'init_error' in obs:
        res.fail('C07.init_failed', obs['init_error'])
        return res
    if obs.get('error'):
        res.fail('C07.simulation_error', obs['error'])
    for tag, i, us, got, exp in obs['samples']:
        if got is not exp:
            when = EPOCH + _dt.timedelta(microseconds=us)
            res.fail('C07.output', f"{tag}: block t{i} ({'UTC' if cfgs_utc(case, i) else 'local'} time {when}, "
                     f"weekday {when.isoweekday()}) outputs {got!r}, expected {exp!r}")
            break
    near_start = abs(case['eps_us']) <= 5000
    res.nontrivial = bool(obs.get('straddled')) and bool(
        near_start or obs.get('near_reconfig') or obs.get('jumped'))
    res.classes = [f"blocks={len(case['blocks'])}"]
    if near_start:
        res.classes.append('start within 5 ms of a boundary')
    if obs.get('near_reconfig'):
        res.classes.append('reconfig within 5 ms of a boundary')
    if obs.get('jumped'):
        res.classes.append('clock jump')
    if obs.get('link_fired'):
        res.classes.append('block reconfigured by the output event of another block')
    if obs.get('straddled'):
        res.classes.append('samples straddle a boundary')
    if any(b['kind'] == 'ts' for b in case['blocks']):
        res.classes.append('TimeSpan')
    if any(b['utc'] for b in case['blocks']) and any(not b['utc'] for b in case['blocks']):
        res.classes.append('local and UTC schedulers')
    res.outcome = {'samples': len(obs['samples']), 'skipped': obs['skipped']}
    return res


def cfgs_utc(case, i):
    return case['blocks'][i]['utc']
