"""C04 - a timed state yields its timed event exactly once, on time, unless left earlier.

Generic generated FSMs with TIMERS, the Timer block and the InputExp block on the virtual
clock; external events placed before / exactly at / after expiries; the discrete-event
reference interpreter of vf/fsmlab.py (set-valued at ties) is the oracle.
"""
import itertools

from hypothesis import strategies as st

from .. import fsmlab
from ..runner import Result
from . import c03

ID = 'C04'
LEVEL = 'exploration'
BUDGET = {'quick': 3000, 'thorough': 10000}
RULE = ("Case = (i) generated FSM (<=3 states, <=2 events) with TIMERS: duration in {0, 1, 2, 3, INF, None "
        "+ t_STATE override, None + per-event 'duration', unit strings, negative}, timed event = table "
        "event (may be rejected by rule or condition) or Goto, hooks/events as in C03; (ii) Timer with "
        "t_on / t_off / t_period / restartable / initdef; (iii) InputExp with duration / expired / initdef "
        "and per-event duration. <=8 external events on a 0.5 s grid around the expiries (before, exactly "
        "at, after), stop instant likewise; driver as a task or as a timer callback (ties in both orders). "
        "Compared after every step and at the end: complete log with virtual timestamps, state, output, "
        "get_state() expiry timestamp, number of live FSM timer handles (0/1), nothing after stop. "
        "Non-trivial = >=1 timed event delivered by a running timer and (an external event within 0.5 s "
        "of an expiry or a pending timer cancelled by leaving/re-entering the state); distinct by descriptor.")
ASSUMPTIONS = [
    "a driver action at exactly the instant of an expiry may be served before or after the timer; both "
    "schedules are admitted (DESIGN 2.1)",
    "virtual time: expiry instants are exact sums of grid values; tolerance 1e-6 s (1e-4 s for the "
    "UNIX timestamp reported by get_state())",
]

DUR = st.sampled_from([None, 1, 2, 2.5, 3, 0, 'INF', '1.5s', '2,5 s'])
GRID = [0.0, 0.5, 0.5, 1.0, 1.0, 1.5, 2.0, 2.5, 3.0]


@st.composite
def timer_cases(draw):
    kwargs = {}
    if draw(st.integers(0, 3)) == 0:
        kwargs['t_period'] = draw(st.sampled_from([2, 3, 5, '1.5s']))
    else:
        for key in ('t_on', 't_off'):
            if draw(st.booleans()):
                kwargs[key] = draw(DUR)
    steps = []
    t = 0.0
    for k in range(draw(st.integers(0, 8))):
        t += draw(st.sampled_from(GRID))
        data = {'tag': k}
        if draw(st.integers(0, 3)) == 0:
            data['duration'] = draw(st.sampled_from([0, 1, 2, '0.5s', 'INF', 1.5]))
        steps.append({'t': t, 'ev': draw(st.sampled_from(['start', 'stop', 'toggle', 'start', 'stop', 'bogus'])),
                      'data': data})
    stop = t + draw(st.sampled_from([0.0, 0.5, 1.0, 2.0, 7.5]))
    return fsmlab.timer_desc(kwargs, draw(st.booleans()), draw(st.sampled_from([None, 'on', 'off'])),
                             steps, stop)


@st.composite
def inputexp_cases(draw):
    duration = draw(st.sampled_from([2, 2, 3, 1, '1.5s', 'INF', 0, None]))
    steps = []
    t = 0.0
    for k in range(draw(st.integers(0, 8))):
        t += draw(st.sampled_from(GRID))
        data = {'value': draw(st.integers(1, 4))}
        if draw(st.integers(0, 2)) == 0 or duration is None:
            data['duration'] = draw(st.sampled_from([0, 1, 2, '0.5s', 'INF', 1.5]))
        steps.append({'t': t, 'ev': draw(st.sampled_from(['put', 'put', 'put', 'put', 'bogus'])), 'data': data})
    stop = t + draw(st.sampled_from([0.0, 0.5, 1.0, 2.0, 7.5]))
    initdef = draw(st.sampled_from([None, None, 7]))
    if duration is None:
        initdef = None      # entering 'valid' at start-up without any duration is a configuration error
    return fsmlab.inputexp_desc(duration, draw(st.sampled_from([None, 0, 'exp'])), initdef, steps, stop)


def strategy(tier):
    generic = fsmlab.fsm_desc(max_states=3, max_events=2, timers=True, flaky=True)
    # other blocks of the circuit whose stop() fails (an error the simulator must suppress): the FSM
    # must be stopped all the same, whatever the order
    return st.one_of(generic, generic, timer_cases(), inputexp_cases()).flatmap(
        lambda d: st.tuples(st.booleans(), st.sampled_from([0, 0, 0, 6])).map(
            lambda t: dict(d, cb_driver=t[0], bad_stoppers=t[1])))


# ---------------------------------------------------------------- exhaustive grid
def exh_subcases(batch):
    d0, d1, tev0, tev1 = batch['exh']
    grid9 = [0.5 * k for k in range(9)]
    events = [('e0', None), ('e1', None)]
    for n in range(0, 3):
        for times in itertools.combinations_with_replacement(grid9, n):
            for evs in itertools.product(['e0', 'e1'], repeat=n):
                steps = [{'t': t, 'ev': ev, 'data': {'tag': k}} for k, (t, ev) in enumerate(zip(times, evs))]
                yield {'lib': None, 'states': ['s0', 's1'], 'events': ['e0', 'e1'],
                       'rules': [['e0', None, 's1', 'list'], ['e1', ['s1'], 's0', 'list'],
                                 ['e1', ['s0'], None, 'list']],
                       'timers': {'s0': [d0, tev0], 's1': [d1, tev1]}, 'inst_t': {},
                       'cond': {}, 'icond': {}, 'enter': {}, 'ienter': {}, 'exit': {}, 'iexit': {},
                       'outmap': None, 'initdef': None, 'on_enter': ['s0', 's1'], 'on_exit': ['s0', 's1'],
                       'notrans': True, 'on_output': True, 'steps': steps, 'stop': 4.5,
                       'cb_driver': (n + len(times)) % 2 == 1}


def exhaustive(tier):
    if tier != 'thorough':
        return None

    def gen():
        for d0 in (0, 1, 2, 'INF'):
            for d1 in (0, 1, 2, 'INF'):
                if d0 == 0 and d1 == 0:
                    continue        # endless chain: covered by the random tier
                for tev0 in ('e0', 'e1', ['goto', 's1']):
                    for tev1 in ('e0', 'e1', ['goto', 's0']):
                        yield {'exh': [d0, d1, tev0, tev1]}
    return ("2 timed states x durations {0,1,2,INF}^2 x timed events {e0, e1, Goto}^2 x all multisets of "
            "<=2 external events on the 9-point grid {0,.5,...,4} x event names; stop at 4.5", gen())


def check(desc, res):
    results, log, info = fsmlab.run_real(desc)
    if 'build_error' in info:
        res.fail('C04.build_failed', info['build_error'])
        return None
    if 'livelock' in info:
        res.fail('C04.livelock', "the FSM keeps the event loop busy without any time passing: " + info['livelock'])
        return None
    outcomes = fsmlab.admissible_runs(desc, log)
    idx, diff = fsmlab.compare(results, log, outcomes)
    if idx is None:
        res.fail('C04.log' if diff[1] == 'log' else 'C04.timer_state',
                 f"{diff[2]} ({len(outcomes)} admissible schedule(s))")
        return None
    mres, _, model = outcomes[idx]
    # at most one live timer handle, exactly when the model has a pending timer
    handles = info.get('handles', [])
    for h, r in zip(handles, mres):
        want = 0 if (len(r) < 6 or r[5] is None) else 1
        if h != want:
            res.fail('C04.timer_handles', f"at observation {r[0]!r}: {h} live FSM timer handle(s), expected {want}")
            break
    if info.get('late'):
        res.fail('C04.event_after_stop', f"{info['late'][:2]}")
    if info.get('handles_after_stop'):
        res.fail('C04.timer_after_stop', f"{info['handles_after_stop']} live timer handle(s) after stop")
    model.nadmissible = len(outcomes)
    return model


def near_expiry(desc, model):
    """an external step within half a second of an instant at which the model delivered a timed event
    or had one pending"""
    stamps = [e[-1] for e in model.log]
    for s in desc['steps']:
        for e in model.log:
            if abs(s['t'] - e[-1]) <= 0.5 and e[-1] > 0 and not any(
                    abs(e[-1] - x['t']) < 1e-9 for x in desc['steps']):
                return True
    return False


def execute(case):
    res = Result()
    if 'exh' in case:
        res.evals = 0
        for n, sub in enumerate(exh_subcases(case)):
            res.evals += 1
            before = len(res.violations)
            model = check(sub, res)
            if len(res.violations) > before:
                res.violations[-1] = (res.violations[-1][0],
                                      f"[sub-case {n}: steps {[(s['t'], s['ev']) for s in sub['steps']]}] "
                                      + str(res.violations[-1][1]))
                break
            if model is not None and model.timed_deliveries >= 1 and (
                    model.stale_cancelled or near_expiry(sub, model)):
                res.nt_count += 1
        res.classes = ['exhaustive batch']
        return res
    model = check(case, res)
    if model is None:
        return res
    near = near_expiry(case, model)
    res.nontrivial = model.timed_deliveries >= 1 and bool(model.stale_cancelled or near)
    res.classes = [case.get('lib') or 'generic FSM']
    if model.nadmissible > 1:
        res.classes.append('tie (set-valued)')
    if model.stale_cancelled:
        res.classes.append('pending timer cancelled by leaving the state')
    if model.nonfatal:
        res.classes.append('output event refused by its destination (non-fatal)')
    if case.get('bad_stoppers'):
        res.classes.append("other blocks with a failing stop()")
    if model.timed_deliveries:
        res.classes.append('timed event delivered')
    if near:
        res.classes.append('external event within 0.5 s of an expiry')
    if model.error:
        res.classes.append('fatal error predicted')
    if case.get('cb_driver'):
        res.classes.append('callback driver')
    res.outcome = {'timed': model.timed_deliveries, 'cancelled': model.stale_cancelled,
                   'admissible': model.nadmissible}
    return res
