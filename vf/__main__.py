import os
import sys

REPO = os.environ.get('VERIF_REPO', '/repo')
sys.path.insert(0, REPO)
sys.dont_write_bytecode = True

from .runner import main

sys.exit(main())
