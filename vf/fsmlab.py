"""Generated FSM classes, their execution on the virtual loop, and a reference interpreter.

Shared by C03 (table semantics, action order, chained transitions, event data) and
C04 (timed states, Timer, InputExp).  A case descriptor is plain JSON data.

Descriptor:
  lib       None | 'Timer' | 'InputExp'      (library FSMs are described by an equivalent descriptor)
  states    [names]          events [names]
  rules     [[event, None | [states], target | None, notation]]   notation: 'list' | 'bar' | 'bar_sp'
  timers    {state: [duration, timed_event]}      timed_event: name | ['goto', state]
  inst_t    {state: duration}                     t_STATE overrides
  cond/icond  {event: 'data' | 'c0' | 'c1'}       class method / instance callback
  enter     {state: 'log' | {'chain': ev, 'data': {...}, 'times': n}}    (class method)
  ienter, exit, iexit  {state: 'log'}
  outmap    None | {state: value | 'U'}           'U' -> calc_output returns UNDEF
  initdef   state | None
  on_enter, on_exit [states]; notrans, on_output: bool
  flaky     None | {'until': T, 'exit': [states], 'enter': [states]}   extra on_exit / on_enter event to a
            destination that raises EdzedUnknownEvent (a non-fatal error) before the instant T
  steps     [{'t': instant, 'ev': name | ['goto', state], 'data': {...}}]
  stop      instant
durations: number | 'INF' | None | string from DURSTR
"""
import asyncio

from hypothesis import strategies as st

import edzed

from . import harness

UNDEF = edzed.UNDEF
INF = float('inf')
U = '<UNDEF>'
DURSTR = {'1.5s': 1.5, '0m2s': 2.0, '0.5s': 0.5, '1s': 1.0, '0h0m1.0s': 1.0, '2,5 s': 2.5}


# constant results of generated conditions: any false value refuses, any true value permits
COND_RESULT = {'c0': 0, 'c1': 1, 'cnone': None, 'cempty': '', 'clist': [0]}


def dur_value(d):
    if d is None:
        return None
    if d == 'INF':
        return INF
    if isinstance(d, str):
        return DURSTR[d]
    return max(0.0, float(d))


def dur_real(d):
    return edzed.INF_TIME if d == 'INF' else d


def vis(x):
    return U if x is UNDEF else x


class Fatal(Exception):
    pass


class NonFatal(Exception):
    """an output event of the FSM hit a destination that does not know the event (EdzedUnknownEvent)"""


class Tie(Exception):
    """the model met an undecided tie (more choices needed)"""


# =============================================================== reference interpreter
class Model:
    def __init__(self, desc, choices=()):
        self.d = desc
        self.table = {}
        for ev, frm, tgt, _ in desc['rules']:
            if frm is None:
                self.table[(ev, None)] = tgt
            else:
                for s in frm:
                    self.table[(ev, s)] = tgt
        self.state = UNDEF
        self.output = UNDEF
        self.sdata = dict(desc.get('sdata0', {}))
        self.timer = None           # (when, timed event)
        self.now = 0.0
        self.log = []
        self.error = None
        self.active = False
        self.pending = None
        self.choices = list(choices)
        self.nties = 0
        self.timed_deliveries = 0
        self.accepted = self.rejected = 0
        self.chained = False
        self.precedence = False
        self.stale_cancelled = 0
        self.nonfatal = 0
        self.driver_at = None
        self.default_choice = None

    # ---- helpers
    def choose(self):
        """a tie: 0 = timer first, 1 = driver first"""
        k = self.nties
        self.nties += 1
        if k >= len(self.choices):
            if self.default_choice is not None:
                return self.default_choice
            raise Tie()
        return self.choices[k]

    def hook(self, kind, who, name, data):
        self.log.append(('hook', kind, who, name, dict(data), vis(self.state), vis(self.output),
                         True, self.now))

    def send(self, etype, data):
        data = dict(data)
        data['source'] = 'f'
        self.log.append(('ev', etype, data, self.now))

    def flk(self, kind, state):
        fl = self.d.get('flaky')
        if not fl or state not in fl[kind]:
            return
        ok = self.now >= fl['until']
        self.log.append(('flk', ok, self.now))
        if not ok:
            raise NonFatal()

    def calc(self):
        om = self.d['outmap']
        if om is None:
            return self.state
        if om == 'timer':
            return self.state == 'on'
        if isinstance(om, dict) and om.get('_kind') == 'inputexp':
            return self.sdata['input'] if self.state == 'valid' else om['expired']
        return om[self.state]

    def set_output(self, out):
        if self.output is UNDEF or self.output != out:
            prev = self.output
            self.output = out
            if self.d['on_output']:
                self.send('output', {'trigger': 'output', 'previous': vis(prev), 'value': out})

    def visible_sdata(self):
        return {k: v for k, v in self.sdata.items() if not k.startswith('_')}

    def run_cond(self, ev, data):
        results = []
        for who, cfg in (('inst', self.d['icond']), ('cls', self.d['cond'])):
            kind = cfg.get(ev)
            if not kind:
                continue
            if kind == 'timer_start':
                results.append(self.d['restartable'] or self.state != 'on')
            elif kind == 'timer_stop':
                results.append(self.d['restartable'] or self.state != 'off')
            elif kind == 'inputexp_put':
                self.sdata['input'] = data['value']
                results.append(True)
            else:
                self.hook('cond', who, ev, data)
                results.append(bool(COND_RESULT[kind]) if kind in COND_RESULT else
                               bool(data.get('ok', 1)) if kind == 'data' else kind == 'c1')
        return all(results)

    def run_exit(self, state, data):
        for who, cfg in (('inst', self.d['iexit']), ('cls', self.d['exit'])):
            if cfg.get(state):
                self.hook('exit', who, state, data)

    def run_enter(self, state, data):
        for who, cfg in (('inst', self.d['ienter']), ('cls', self.d['enter'])):
            script = cfg.get(state)
            if not script:
                continue
            self.hook('enter', who, state, data)
            self.sdata['n'] = self.sdata.get('n', 0) + 1
            self.sdata['_p'] = state
            if isinstance(script, dict):
                for i in range(script['times']):
                    r = self.event(script['chain'], dict(script['data']))
                    if r == 'UNKNOWN':
                        raise AssertionError('generator must not chain unknown events')
                    self.log.append(('chainret', state, i, r, self.now))
                # the action still reads the data of the event that caused it
                self.log.append(('hookafter', 'enter', who, state, dict(data), self.now))

    # ---- the FSM proper
    def event(self, ev, data):
        d = self.d
        if isinstance(ev, list):
            new = ev[1]
        else:
            if ev not in d['events']:
                return 'UNKNOWN'
            if (ev, self.state) in self.table:
                new = self.table[(ev, self.state)]
                if (ev, None) in self.table and self.table[(ev, None)] != new:
                    self.precedence = True
            else:
                new = self.table.get((ev, None))
            if new is None:
                if d['notrans']:
                    self.send('notrans', {'trigger': 'notrans', 'event': ev, 'state': self.state})
                return False
            if self.output is not UNDEF and not self.run_cond(ev, data):
                return False
        if self.active:
            if self.pending is not None:
                raise Fatal('event multiplication')
            self.pending = (ev, data, new)
            self.chained = True
            return True
        self.active = True
        try:
            if self.output is not UNDEF:
                self.run_exit(self.state, data)
                if self.state in d['on_exit']:
                    self.send('exit', {'trigger': 'exit', 'state': self.state,
                                       'value': self.output, 'sdata': self.visible_sdata()})
                self.flk('exit', self.state)
                if self.timer is not None:
                    self.stale_cancelled += 1
                self.timer = None
            for _ in range(3 * len(d['states'])):
                if self.pending:
                    ev, data, new = self.pending
                    self.pending = None
                    self.run_exit(self.state, data)
                self.state = new
                self.run_enter(new, data)
                if self.pending:
                    continue
                if new in d['timers']:
                    self.start_timer(data.get('duration'), d['timers'][new][1])
                    if self.pending:
                        continue
                break
            else:
                raise Fatal('chain limit')
            out = self.calc()
            if out != 'U':
                self.set_output(out)
            if self.state in d['on_enter']:
                self.send('enter', {'trigger': 'enter', 'state': self.state,
                                    'value': vis(self.output), 'sdata': self.visible_sdata()})
            self.flk('enter', self.state)
            return True
        finally:
            self.active = False

    def start_timer(self, item, tev):
        if item is not None:
            dur = dur_value(item)
        else:
            inst = self.d['inst_t'].get(self.state)
            dur = dur_value(inst) if inst is not None else dur_value(self.d['timers'][self.state][0])
            if dur is None:
                raise Fatal('timer duration not set')
        if dur == INF:
            return
        if dur <= 0:
            self.timed_deliveries += 1
            self.event(tev, {})
            return
        self.timer = (self.now + dur, tev)

    # ---- driving
    def guarded(self, ev, data):
        try:
            r = self.event(ev, data)
        except Fatal:
            self.pending = None
            self.active = False
            self.timer = None
            if self.error is None:
                self.error = 'EdzedCircuitError'
            return ['EXC', 'EdzedCircuitError']
        except NonFatal:
            self.nonfatal += 1
            return ['EXC', 'EdzedUnknownEvent']
        if r == 'UNKNOWN':
            return ['EXC', 'EdzedUnknownEvent']
        if r:
            self.accepted += 1
        else:
            self.rejected += 1
        return r

    def advance(self, to, is_stop=False):
        """fire timers due before 'to'; a timer due exactly at 'to' is a tie.
        Returns True if the driver action at 'to' comes before an equal-time timer."""
        same_instant = self.driver_at is not None and abs(to - self.driver_at) <= 1e-9
        self.driver_at = to
        while self.timer is not None and self.error is None:
            when, tev = self.timer
            if when < to - 1e-9:
                pass
            elif abs(when - to) <= 1e-9:
                # the driver does not yield between two actions of one instant
                # (the final observation may or may not be preceded by a yield)
                if (same_instant and not is_stop) or self.choose() == 1:
                    break
            else:
                break
            self.timer = None
            self.now = when
            self.timed_deliveries += 1
            self.guarded(tev, {})
        self.now = to

    def observe(self, tag, ret):
        return [tag, ret, vis(self.state), vis(self.output), self.error,
                None if self.timer is None else self.timer[0]]

    def run(self):
        """-> (results, log)"""
        d = self.d
        out = []
        init = d['initdef'] or d['states'][0]
        r0 = self.guarded(['goto', init], {})
        # an exception leaving the initialisation routine (even a non-fatal kind) fails the start-up
        if self.error or self.output is UNDEF or isinstance(r0, list):
            return [['INITFAIL']], self.log
        out.append(self.observe('init', None))
        for k, step in enumerate(d['steps']):
            self.advance(step['t'])
            if self.error:
                break
            data = dict(step['data'])
            if not isinstance(step['ev'], list):
                data['source'] = '_ext_'        # added by ExtEvent
            r = self.guarded(step['ev'], data)
            out.append(self.observe(k, r))
            if self.error:
                break
        if not self.error:
            self.advance(d['stop'], is_stop=True)
        out.append(self.observe('final', None))
        return out, self.log


def admissible_runs(desc, real_log=None, max_runs=20000):
    """outcomes of the model over the legal orders at ties -> [(results, log, model)]

    With real_log given the search is pruned: a branch whose log already differs from the
    observed one (except for its last two entries) is not expanded.  If everything is pruned
    the timer-first schedule is returned for the diagnostics."""
    outcomes = []
    todo = [()]
    runs = 0
    rl = canon_log(real_log) if real_log is not None else None
    while todo:
        choices = todo.pop()
        m = Model(desc, choices)
        runs += 1
        try:
            results, log = m.run()
        except Tie:
            if rl is not None:
                ml = canon_log(m.log)
                n = max(0, len(ml) - 2)
                if n > len(rl) or any(not same_entry(a, b) for a, b in zip(ml[:n], rl[:n])):
                    continue
            if runs > max_runs:
                raise harness.vloop.HarnessError('too many ties in one case')
            todo.append(choices + (1,))
            todo.append(choices + (0,))
            continue
        outcomes.append((results, log, m))
    if not outcomes:
        m = Model(desc, ())
        m.default_choice = 0
        results, log = m.run()
        outcomes.append((results, log, m))
    return outcomes


# =============================================================== real execution
def render_rules(desc):
    evs = []
    for ev, frm, tgt, notation in desc['rules']:
        if frm is None:
            evs.append((ev, None, tgt))
        elif notation == 'bar':
            evs.append((ev, '|'.join(frm), tgt))
        elif notation == 'bar_sp':
            evs.append([ev, ' | '.join(frm), tgt])
        else:
            evs.append((ev, list(frm), tgt))
    return evs


def real_event(ev):
    return edzed.Goto(ev[1]) if isinstance(ev, list) else ev


def real_data(data):
    data = dict(data)
    if data.get('duration') == 'INF':
        data['duration'] = edzed.INF_TIME
    return data


def build_fsm(desc, log, clock):
    """create the block 'f' (and nothing else); clock() -> relative virtual time"""
    blk = [None]

    def seen():
        try:
            data = edzed.fsm_event_data.get()
        except LookupError:
            return 'NOCTX', None
        try:
            data['x'] = 1
            ro = False
        except TypeError:
            ro = True
        return {k: (v if v != edzed.INF_TIME else 'INF') for k, v in data.items()}, ro

    def mk(kind, who, name, script):
        def hook(self=None):
            f = blk[0]
            data, ro = seen()
            log.append(('hook', kind, who, name, data, vis(f.state), vis(f.output), ro, clock()))
            if kind == 'cond':
                if script == 'data':
                    return data.get('ok', 1) if isinstance(data, dict) else 1
                return COND_RESULT[script]
            if kind == 'enter':
                f.sdata['n'] = f.sdata.get('n', 0) + 1
                f.sdata['_p'] = name
                if isinstance(script, dict):
                    for i in range(script['times']):
                        r = f.event(real_event(script['chain']), **real_data(script['data']))
                        log.append(('chainret', name, i, r, clock()))
                    log.append(('hookafter', kind, who, name, seen()[0], clock()))
            return None
        hook.__name__ = f'{kind}_{name}'
        return hook

    kw = {}
    lib = desc.get('lib')
    if lib is None:
        ns = {'STATES': list(desc['states']), 'EVENTS': render_rules(desc),
              'TIMERS': {s: (dur_real(dur), real_event(tev)) for s, (dur, tev) in desc['timers'].items()}}
        for ev, k in desc['cond'].items():
            if k:
                ns['cond_' + ev] = mk('cond', 'cls', ev, k)
        for s, k in desc['enter'].items():
            if k:
                ns['enter_' + s] = mk('enter', 'cls', s, k)
        for s, k in desc['exit'].items():
            if k:
                ns['exit_' + s] = mk('exit', 'cls', s, k)
        om = desc['outmap']
        if om is not None:
            def calc_output(self):
                v = om[self.state]
                return UNDEF if v == 'U' else v
            ns['calc_output'] = calc_output
        cls = type('GenFSM', (edzed.FSM,), ns)
        for s, v in desc['inst_t'].items():
            kw['t_' + s] = dur_real(v)
        for ev, k in desc['icond'].items():
            if k:
                kw['cond_' + ev] = mk('cond', 'inst', ev, k)
        for s, k in desc['ienter'].items():
            if k:
                kw['enter_' + s] = mk('enter', 'inst', s, k)
        for s, k in desc['iexit'].items():
            if k:
                kw['exit_' + s] = mk('exit', 'inst', s, k)
        if desc['initdef']:
            kw['initdef'] = desc['initdef']
    elif lib == 'Timer':
        cls = edzed.Timer
        kw.update({k: dur_real(v) for k, v in desc['lib_kwargs'].items()})
        kw['restartable'] = desc['restartable']
        if desc['initdef']:
            kw['initdef'] = desc['initdef']
    else:
        cls = edzed.InputExp
        kw.update(desc['lib_kwargs'])
        kw['duration'] = dur_real(kw['duration'])
    fl = desc.get('flaky') or {'enter': [], 'exit': []}
    for s in desc['states']:
        for trig in ('enter', 'exit'):
            evs = [edzed.Event('rec', trig)] if s in desc['on_' + trig] else []
            if s in fl[trig]:
                evs.append(edzed.Event('flk', 'poke'))
            if evs:
                kw[f'on_{trig}_{s}'] = evs
    if desc['notrans']:
        kw['on_notrans'] = edzed.Event('rec', 'notrans')
    if desc['on_output']:
        kw['on_output'] = edzed.Event('rec', 'output')
    kw.update(desc.get('extra_kwargs', {}))
    blk[0] = cls('f', **kw)
    return blk[0]


def fsm_handles(loop, f):
    # a due timer has already been moved from _scheduled to _ready when callbacks of the same
    # instant run
    return [h for h in list(loop._scheduled) + list(loop._ready) if not h._cancelled
            and getattr(getattr(h, '_callback', None), '__self__', None) is f]


def run_real(desc):
    """-> (results, log, info)"""
    log = []
    results = []
    info = {}

    async def scenario(loop):
        harness.reset()
        circuit = edzed.get_circuit()
        t0 = loop.time()

        def clock():
            return loop.time() - t0

        def rechook(rec):
            data = {k: vis(v) for k, v in rec['data'].items()}
            log.append(('ev', rec['etype'], data, clock()))
        harness.Recorder('rec', x_log=[], x_hook=rechook)
        if desc.get('bad_stoppers'):
            class BadStop(edzed.SBlock):
                def init_regular(self):
                    self.set_output(0)

                def stop(self):
                    super().stop()
                    raise RuntimeError('clean-up of this block failed')
            for k in range(desc['bad_stoppers']):
                BadStop(f'badstop{k}')
        if desc.get('flaky'):
            until = desc['flaky']['until']

            class Flaky(edzed.SBlock):
                def init_regular(self):
                    self.set_output(0)

                def _event(self, etype, data):
                    ok = clock() >= until
                    log.append(('flk', ok, clock()))
                    if not ok:
                        raise edzed.EdzedUnknownEvent(f"{self}: Unknown event type {etype!r}")
            Flaky('flk')
        try:
            f = build_fsm(desc, log, clock)
        except Exception as err:
            info['build_error'] = repr(err)
            return
        unix0 = loop.vwall.peek_us() / 1e6
        sim = harness.Running()
        await sim.__aenter__()
        if sim.init_error is not None:
            results.append(['INITFAIL'])
            info['init_error'] = repr(circuit.error)
            await sim.stop()
            return

        def observe(tag, ret):
            ts = f.get_state()[1]
            handles = fsm_handles(loop, f)
            info.setdefault('handles', []).append(len(handles))
            return [tag, ret, vis(f.state), vis(f.output),
                    None if circuit.error is None else type(circuit.error).__name__,
                    None if ts is None else ts - unix0]
        results.append(observe('init', None))

        def do_step(k, step):
            try:
                if isinstance(step['ev'], list):
                    r = f.event(edzed.Goto(step['ev'][1]), **real_data(step['data']))
                else:
                    r = edzed.ExtEvent(f, step['ev']).send(**real_data(step['data']))
            except Exception as err:
                r = ['EXC', type(err).__name__]
            results.append(observe(k, r))

        if desc.get('cb_driver'):
            # the steps of one instant are performed by one timer callback registered up-front,
            # so that a tie with an FSM timer can also be won by the driver
            state = {'stopped': False}
            instants = []
            for k, step in enumerate(desc['steps']):
                if not instants or instants[-1][0] != step['t']:
                    instants.append((step['t'], []))
                instants[-1][1].append((k, step))

            def do_instant(steps):
                for k, step in steps:
                    if circuit.error is not None or state['stopped']:
                        state['stopped'] = True
                        return
                    do_step(k, step)
            for t, steps in instants:
                loop.call_at(t0 + t, do_instant, steps)
            if instants:
                await harness.vloop.sleep_until(loop, t0 + instants[-1][0])
                await harness.quiesce(loop)
        else:
            for k, step in enumerate(desc['steps']):
                await harness.vloop.sleep_until(loop, t0 + step['t'])
                if circuit.error is not None:
                    break
                do_step(k, step)
                if circuit.error is not None:
                    break
        if circuit.error is None:
            await harness.vloop.sleep_until(loop, t0 + desc['stop'])
        results.append(observe('final', None))
        await sim.stop()
        n = len(log)
        info['handles_after_stop'] = len(fsm_handles(loop, f))
        await harness.vloop.sleep_until(loop, loop.time() + 20)
        await harness.quiesce(loop)
        info['late'] = log[n:]
        info['state_after'] = vis(f.state)

    try:
        harness.run_case(scenario)
    except harness.vloop.Livelock as err:
        # hundreds of thousands of loop iterations without the virtual time advancing: the FSM
        # keeps re-arming a zero-length timer (the reference model ends every chain by an error)
        info['livelock'] = str(err)
    return results, log, info


# =============================================================== comparison
def canon_log(log):
    """order the (instance callback, class method) pair of one hook canonically;
    the documentation reserves the right to call them in either order.
    Consecutive entries of the same hook (same kind, name, event data, state, output, time) form a
    group that is sorted by the kind of callback - pairing by adjacency alone would mix up two
    successive events."""
    out = []
    i = 0
    n = len(log)

    def key(e):
        return (e[1], e[3], repr(e[4]), repr(e[5:-1]), round(e[-1], 6))
    while i < n:
        a = log[i]
        if a[0] != 'hook':
            out.append(a)
            i += 1
            continue
        j = i + 1
        while j < n and log[j][0] == 'hook' and key(log[j]) == key(a):
            j += 1
        out.extend(sorted(log[i:j], key=lambda e: e[2]))
        i = j
    return out


def same_entry(a, b):
    return len(a) == len(b) and a[:-1] == b[:-1] and abs(a[-1] - b[-1]) <= 1e-6


def same_result(a, b):
    if len(a) != len(b):
        return False
    if a[:-1] != b[:-1]:
        return False
    if len(a) >= 6:
        if (a[-1] is None) != (b[-1] is None):
            return False
        if a[-1] is not None and abs(a[-1] - b[-1]) > 1e-4:
            return False
    return True


def compare(real_results, real_log, outcomes):
    """-> (index of the matching outcome, None) or (None, description of the best mismatch)"""
    rl = canon_log(real_log)
    best = None
    for idx, (mres, mlog, _) in enumerate(outcomes):
        ml = canon_log(mlog)
        k = 0
        while k < min(len(rl), len(ml)) and same_entry(rl[k], ml[k]):
            k += 1
        if k < max(len(rl), len(ml)):
            diff = (k, 'log', f"log entry {k}: got {rl[k] if k < len(rl) else 'END'!r}, "
                    f"expected {ml[k] if k < len(ml) else 'END'!r}")
        else:
            diff = None
            for j in range(max(len(real_results), len(mres))):
                if (j >= len(real_results) or j >= len(mres)
                        or not same_result(real_results[j], mres[j])):
                    diff = (10_000 + j, 'result',
                            f"step result {j}: got {real_results[j] if j < len(real_results) else 'END'!r}, "
                            f"expected {mres[j] if j < len(mres) else 'END'!r} "
                            "[tag, return, state, output, error, timer expiry]")
                    break
        if diff is None:
            return idx, None
        if best is None or diff[0] > best[0]:
            best = diff
    return None, best


# =============================================================== generator
def _tev(draw, states, events):
    if events and draw(st.booleans()):
        return draw(st.sampled_from(events))
    return ['goto', draw(st.sampled_from(states))]


@st.composite
def fsm_desc(draw, max_states=3, max_events=2, timers=False, chains=True, grid=0.5, flaky=False):
    ns = draw(st.integers(1, max_states))
    ne = draw(st.integers(1, max_events))
    states = [f's{i}' for i in range(ns)]
    events = [f'e{i}' for i in range(ne)]
    rules = []
    for ev in events:
        anyrule = draw(st.sampled_from(['absent', 'none'] + states))
        per = {s: draw(st.sampled_from(['absent', 'absent', 'none'] + states)) for s in states}
        if anyrule != 'absent':
            rules.append([ev, None, None if anyrule == 'none' else anyrule, 'list'])
        # group states with the same target into one rule in a generated notation
        bytarget = {}
        for s, tgt in per.items():
            if tgt != 'absent':
                bytarget.setdefault(tgt, []).append(s)
        for tgt, frm in bytarget.items():
            rules.append([ev, frm, None if tgt == 'none' else tgt,
                          draw(st.sampled_from(['list', 'bar', 'bar_sp']))])
        if not any(r[0] == ev for r in rules):
            rules.append([ev, None, draw(st.sampled_from(states)), 'list'])
    tm = {}
    inst_t = {}
    if timers:
        for s in states:
            if draw(st.integers(0, 9)) < 6:
                dur = draw(st.sampled_from([0, 1, 2, 2, 'INF', None, '1.5s', '0m2s', -1, 1, 3]))
                tm[s] = [dur, _tev(draw, states, events)]
                if dur is None or draw(st.integers(0, 3)) == 0:
                    inst_t[s] = draw(st.sampled_from([1, 3, 0, 'INF', '0.5s', 2, None]))
    hookkind = st.sampled_from([None, None, 'log'])
    desc = {
        'lib': None, 'states': states, 'events': events, 'rules': rules, 'timers': tm,
        'inst_t': {s: v for s, v in inst_t.items() if v is not None},
        'cond': {ev: draw(st.sampled_from([None, None, None, 'data', 'data', 'c0', 'c1', 'c1', 'cnone', 'clist']))
                 for ev in events},
        'icond': {ev: draw(st.sampled_from([None, None, None, None, 'data', 'data', 'c1', 'c1', 'cnone', 'cempty',
                                            'clist'])) for ev in events},
        'enter': {}, 'ienter': {s: draw(hookkind) for s in states},
        'exit': {s: draw(hookkind) for s in states}, 'iexit': {s: draw(hookkind) for s in states},
        'outmap': None, 'initdef': draw(st.sampled_from([None] + states)),
        'on_enter': draw(st.lists(st.sampled_from(states), unique=True)),
        'on_exit': draw(st.lists(st.sampled_from(states), unique=True)),
        'notrans': draw(st.booleans()), 'on_output': draw(st.booleans()),
    }
    for s in states:
        k = draw(st.integers(0, 9))
        if k <= 2:
            desc['enter'][s] = 'log'
        elif k <= 4 and chains:
            cdata = {'tag': 'chain-' + s}
            if timers and draw(st.integers(0, 2)) == 0:
                cdata['duration'] = draw(st.sampled_from([0, 1, '0.5s']))
            if draw(st.booleans()):
                cdata['ok'] = draw(st.integers(0, 1))
            desc['enter'][s] = {'chain': _tev(draw, states, events), 'data': cdata,
                                'times': draw(st.sampled_from([1, 1, 1, 1, 2]))}
            # keep the (instance, class) pair of one hook adjacent in the log: its order is
            # not guaranteed and the chained call logs from inside the class method
            desc['ienter'][s] = None
    if draw(st.integers(0, 2)) == 0:
        desc['outmap'] = {s: draw(st.sampled_from([0, 1, 1, 2, 'U'])) for s in states}
    steps = []
    t = 0.0
    expiry_hint = [1.0, 2.0, 1.5, 3.0]
    for k in range(draw(st.integers(0, 8))):
        if timers:
            t += draw(st.sampled_from([0.0, grid, 1.0, 1.0 - grid, 1.0 + grid, 2.0, 1.5, 3.0, 2.0 - grid]))
        else:
            t += draw(st.sampled_from([0.0, 0.0, 1.0]))
        kind = draw(st.integers(0, 19))
        data = {'tag': k}
        if draw(st.booleans()):
            data['ok'] = draw(st.integers(0, 1))
        if timers and draw(st.integers(0, 3)) == 0:
            data['duration'] = draw(st.sampled_from([0, 1, 2, '0.5s', 'INF', -2]))
        if kind <= 14:
            ev = draw(st.sampled_from(events))
        elif kind <= 16:
            ev = 'bogus'
        else:
            ev = ['goto', draw(st.sampled_from(states))]
        steps.append({'t': t, 'ev': ev, 'data': data})
    desc['steps'] = steps
    desc['stop'] = t + draw(st.sampled_from([0.0, grid, 1.0, 2.0, 5.0, 10.0])) if timers else t
    if flaky and draw(st.integers(0, 3)) == 0:
        # an output event whose destination refuses it (non-fatally) for some time; the instant
        # lies off the time grid, so it never ties with a step or a timer
        init = desc['initdef'] or states[0]
        desc['flaky'] = {'until': draw(st.sampled_from([0.25, 1.25, 2.25, 3.75, 100.25])) if timers else
                         draw(st.sampled_from([0.5, 1.5, 2.5, 100.5])),
                         'exit': draw(st.lists(st.sampled_from(states), unique=True, min_size=1)),
                         'enter': draw(st.lists(st.sampled_from([s for s in states if s != init] or [None]),
                                                unique=True).map(lambda l: [x for x in l if x]))}
    return desc


# ---- library FSMs as descriptors
def timer_desc(kwargs, restartable, initdef, steps, stop):
    inst_t = {}
    if 't_period' in kwargs:
        half = dur_value(kwargs['t_period']) / 2
        inst_t = {'on': half, 'off': half}
    else:
        for key, s in (('t_on', 'on'), ('t_off', 'off')):
            if kwargs.get(key) is not None:
                inst_t[s] = kwargs[key]
    return {
        'lib': 'Timer', 'lib_kwargs': kwargs, 'restartable': restartable,
        'states': ['off', 'on'], 'events': ['start', 'stop', 'toggle'],
        'rules': [['start', None, 'on', 'list'], ['stop', None, 'off', 'list'],
                  ['toggle', ['on'], 'off', 'list'], ['toggle', ['off'], 'on', 'list']],
        'timers': {'on': ['INF', 'stop'], 'off': ['INF', 'start']}, 'inst_t': inst_t,
        'cond': {'start': 'timer_start', 'stop': 'timer_stop'}, 'icond': {},
        'enter': {}, 'ienter': {}, 'exit': {}, 'iexit': {}, 'outmap': 'timer',
        'initdef': initdef, 'on_enter': ['on', 'off'], 'on_exit': ['on', 'off'],
        'notrans': True, 'on_output': True, 'steps': steps, 'stop': stop}


def inputexp_desc(duration, expired, initdef, steps, stop):
    kwargs = {'duration': duration, 'expired': expired}
    sdata0 = {}
    if initdef is not None:
        kwargs['initdef'] = initdef
        sdata0['input'] = initdef
    return {
        'lib': 'InputExp', 'lib_kwargs': kwargs,
        'states': ['expired', 'valid'], 'events': ['put'],
        'rules': [['put', None, 'valid', 'list']],
        'timers': {'valid': [None, ['goto', 'expired']]},
        'inst_t': {} if duration is None else {'valid': duration},
        'cond': {'put': 'inputexp_put'}, 'icond': {},
        'enter': {}, 'ienter': {}, 'exit': {}, 'iexit': {},
        'outmap': {'_kind': 'inputexp', 'expired': expired}, 'sdata0': sdata0,
        'initdef': 'valid' if initdef is not None else 'expired',
        'on_enter': ['expired', 'valid'], 'on_exit': ['expired', 'valid'],
        'notrans': True, 'on_output': True, 'steps': steps, 'stop': stop}
