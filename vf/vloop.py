"""Virtual-time asyncio event loop (DESIGN.md 2.1).

A SelectorEventLoop whose selector never blocks: it polls the real file
descriptors (self-pipe: signals, call_soon_threadsafe) and otherwise advances
a fake clock straight to the next timer.  One fresh loop per case.
"""
import asyncio
import selectors


class HarnessError(Exception):
    """Problem of the harness (never a property violation)."""


class WouldBlockForever(HarnessError):
    pass


class Livelock(HarnessError):
    pass


class Clock:
    """The virtual monotonic clock."""
    START = 1000.0

    def __init__(self, start=START):
        self.start = start
        self.now = start

    def advance(self, d):
        if d > 0:
            self.now += d

    def elapsed(self):
        return self.now - self.start


class VSelector(selectors.SelectSelector):
    def __init__(self, clock, max_iterations):
        super().__init__()
        self._clock = clock
        self._loop = None
        self.iterations = 0
        self.max_iterations = max_iterations
        self.wake_latency = None        # callable -> seconds, or None

    def select(self, timeout=None):
        self.iterations += 1
        if self.iterations > self.max_iterations:
            raise Livelock(
                f"more than {self.max_iterations} loop iterations; "
                f"timeout={timeout!r} now={self._clock.now!r}")
        ready = super().select(0)
        if ready:
            return ready
        if timeout is None:
            raise WouldBlockForever("event loop would block forever")
        if timeout > 0:
            clock = self._clock
            # jump exactly onto the next timer to avoid rounding artefacts
            sched = self._loop._scheduled
            target = sched[0]._when if sched else None
            if target is not None and abs((target - clock.now) - timeout) < 1e-6:
                if target > clock.now:
                    clock.now = target
            else:
                clock.advance(timeout)
            if self.wake_latency is not None:
                clock.advance(self.wake_latency())
        return []


class VLoop(asyncio.SelectorEventLoop):
    def __init__(self, clock=None, max_iterations=400_000):
        self.vclock = clock or Clock()
        sel = VSelector(self.vclock, max_iterations)
        super().__init__(sel)
        sel._loop = self
        self.vselector = sel
        self._clock_resolution = 1e-9

    def time(self):
        return self.vclock.now


def run(coro_func, *args, clock=None, max_iterations=400_000, setup=None):
    """Run coro_func(loop, *args) on a fresh virtual loop; return its result."""
    loop = VLoop(clock, max_iterations)
    asyncio.set_event_loop(loop)
    try:
        if setup is not None:
            setup(loop)
        return loop.run_until_complete(coro_func(loop, *args))
    finally:
        try:
            # get rid of whatever is left so that nothing leaks into the next case
            pending = [t for t in asyncio.all_tasks(loop) if not t.done()]
            for t in pending:
                t.cancel()
            if pending:
                try:
                    loop.run_until_complete(
                        asyncio.gather(*pending, return_exceptions=True))
                except BaseException:
                    pass
        finally:
            asyncio.set_event_loop(None)
            loop.close()


async def quiesce(loop, limit=10_000):
    """Yield until the driver is the only runnable callback (simulator idle)."""
    for _ in range(limit):
        await asyncio.sleep(0)
        if not loop._ready:
            return
    raise Livelock("quiesce: loop never becomes idle")


async def sleep_until(loop, when):
    """Sleep until the exact loop time 'when' (no float rounding of delays)."""
    if when <= loop.time():
        return
    fut = loop.create_future()
    handle = loop.call_at(when, lambda: fut.done() or fut.set_result(None))
    try:
        await fut
    finally:
        handle.cancel()


def live_timers(loop, exclude=()):
    """Non-cancelled scheduled handles (timers)."""
    return [h for h in loop._scheduled if not h._cancelled and h not in exclude]
