"""Virtual wall clock bound to the virtual loop clock (DESIGN.md 2.2).

wall time [integer microseconds since the epoch] =
    base + round(elapsed loop time * 1e6) + jump offset

Installed by replacing the `time` (and, for cron, `dt`) module attributes of the
edzed modules that read the wall clock.  No source hooks needed.
"""
import datetime as _dt
import time as _time
import types

EPOCH = _dt.datetime(1970, 1, 1)


class Wall:
    def __init__(self, clock, start, read_latency_us=0, local_offset_s=0):
        """start: naive datetime = the UTC wall time at clock.start."""
        self.clock = clock
        delta = start - EPOCH
        self.base_us = (delta.days * 86400 + delta.seconds) * 1_000_000 + delta.microseconds
        self.offset_us = 0
        self.read_latency_us = read_latency_us      # int or callable -> int
        self.local_offset_us = int(local_offset_s) * 1_000_000
        self.reads = 0

    def _cost(self):
        lat = self.read_latency_us
        if callable(lat):
            lat = lat()
        if lat:
            self.clock.advance(lat / 1e6)
        self.reads += 1

    def peek_us(self):
        """UTC wall time in us, without cost (for the harness/oracle only)."""
        return self.base_us + round(self.clock.elapsed() * 1e6) + self.offset_us

    def peek_local_us(self):
        return self.peek_us() + self.local_offset_us

    # --- what edzed sees
    def unix(self):
        self._cost()
        return self.peek_us() / 1e6

    def now(self, tz=None):
        self._cost()
        if tz is None:
            return EPOCH + _dt.timedelta(microseconds=self.peek_local_us())
        return (EPOCH + _dt.timedelta(microseconds=self.peek_us())).replace(
            tzinfo=_dt.timezone.utc).astimezone(tz)

    def sleep(self, s):
        self.clock.advance(s)

    # --- harness
    def jump(self, seconds):
        self.offset_us += round(seconds * 1e6)


_current = [None]       # the installed Wall or None (real time)


class _VDateTime(_dt.datetime):
    @classmethod
    def now(cls, tz=None):
        wall = _current[0]
        if wall is None:
            return _dt.datetime.now(tz)
        return wall.now(tz)


def _vtime():
    wall = _current[0]
    return _time.time() if wall is None else wall.unix()


def _vsleep(s):
    wall = _current[0]
    if wall is None:
        _time.sleep(s)
    else:
        wall.sleep(s)


_installed = False


def install():
    """Patch the edzed modules once per process."""
    global _installed
    if _installed:
        return
    import edzed.blocklib.cron as cron
    import edzed.fsm as fsm
    import edzed.addons as addons
    import edzed.simulator as sim
    import edzed.utils.looptimes as lt
    fakedt = types.SimpleNamespace(
        **{k: getattr(_dt, k) for k in dir(_dt) if not k.startswith('__')})
    fakedt.datetime = _VDateTime
    cron.dt = fakedt
    faket = types.SimpleNamespace(
        time=_vtime, sleep=_vsleep, monotonic=_time.monotonic)
    for mod in (cron, fsm, addons, sim, lt):
        mod.time = faket
    _installed = True


def set_wall(wall):
    install()
    _current[0] = wall


def clear_wall():
    _current[0] = None
