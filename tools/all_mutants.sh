#!/bin/sh
# Run every mutant of every property against its quick check; write mutants/RESULTS.md
cd /verif || exit 2
OUT=mutants/RESULTS.md
{
echo "# Sensitivity runs (tools/all_mutants.sh)"
echo
echo "Each patch is applied to a scratch copy of /repo HEAD and the property's quick check is run against it"
echo "(VERIF_REPO). Expected: exit 1 for mutants/<ID>/*.patch and for the reverted fixes"
echo "(mutants/fixes/F*_<ID>.patch applied with -R), exit 0 for the property-preserving mutants/P/<ID>_*.patch."
echo
echo "| property | mutant | expected | exit | first violated clause |"
echo "|---|---|---|---|---|"
} > $OUT
for ID in C01 C02 C03 C04 C05 C06 C07 C08 C09 C10 C11 C12 C13 C14 C15 C16 C17 C18 C19 C20; do
  tools/run_mutants.sh $ID 2>&1 | awk -v id=$ID '
    /^== / { if (name != "") print_row(); name=$2; sub(/:$/,"",name); rc=$0; sub(/.*exit /,"",rc); sub(/ .*/,"",rc); clause="" ; next }
    /^  clause/ { if (clause=="") { clause=$0; sub(/^  clause /,"",clause); clause=substr(clause,1,140); gsub(/\|/,"/",clause) } }
    function print_row() { expd = (name ~ /^C[0-9][0-9]_/) ? "0" : "1"; printf("| %s | %s | %s | %s | %s |\n", id, name, expd, rc, clause) }
    END { if (name != "") print_row() }' >> $OUT
done
echo >> $OUT
echo "generated: $(date -u +%Y-%m-%dT%H:%MZ), /repo $(git -C /repo log --format=%h -1), /verif $(git log --format=%h -1)" >> $OUT
grep -c "^| C" $OUT
