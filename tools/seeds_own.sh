#!/bin/sh
# usage: tools/seeds_own.sh [VERIF_SEED ...]
# For every seeded change run only the quick check of the property it breaks, at the given
# VERIF_SEED values (default 1), eight at a time; prints the ones that stay silent.
# (A cheap robustness test: is the detection an accident of one seed?)
cd /verif || exit 2
SEEDS=${*:-1}
TMP=$(mktemp -d /tmp/seedsown.XXXXXX)
trap 'rm -rf "$TMP"' EXIT
n=0
for d in seeded/*/; do
  id=$(basename "$d")
  [ -f "$d/patch.diff" ] || continue
  prop=$(echo "$id" | cut -c1-3)
  for s in $SEEDS; do
    ( VERIF_SEED=$s tools/seed_check.sh "$d/patch.diff" "$prop" > "$TMP/$id.$s" 2>&1 ) &
    n=$((n+1))
    if [ $((n % 8)) -eq 0 ]; then wait; fi
  done
done
wait
silent=0
for f in "$TMP"/*; do
  if ! grep -q "exit=1" "$f"; then echo "SILENT $(basename "$f"): $(grep -m1 exit= "$f")"; silent=$((silent+1)); fi
done
echo "runs: $n, silent: $silent"
