#!/bin/sh
# usage: [SEED_WT=<worktree> SEED_NAME=<dir name>] tools/verify_seed.sh <ID> [check ids...]
# Verify a seeded change left uncommitted in the scratch worktree /tmp/seed_<ID> (tests pass with it,
# the demonstration fails with it and passes without it), run the checks against it and store it
# under /verif/seeded/<ID>/.
ID=$1; shift
WT=${SEED_WT:-/tmp/seed_$ID}
OUT=/verif/seeded/${SEED_NAME:-$ID}
mkdir -p "$OUT"
git -C "$WT" diff -- edzed > "$OUT/patch.diff"
[ -s "$OUT/patch.diff" ] || { echo "no change in $WT"; exit 3; }
cp "$WT/seed_demo.py" "$OUT/demo.py"
cp "$WT/seed_note.md" "$OUT/note.md" 2>/dev/null
echo "--- tests with the change"
/verif/tools/runtests.sh "$WT" | tail -2 | tee "$OUT/.tests"
echo "--- demo with the change (must fail)"
( cd "$WT" && timeout 120 /venv/bin/python seed_demo.py > "$OUT/.demo_with" 2>&1 ); RC_WITH=$?
tail -2 "$OUT/.demo_with"; echo "rc=$RC_WITH"
git -C "$WT" checkout -- edzed
echo "--- demo without the change (must pass)"
( cd "$WT" && timeout 120 /venv/bin/python seed_demo.py > "$OUT/.demo_without" 2>&1 ); RC_WITHOUT=$?
tail -1 "$OUT/.demo_without"; echo "rc=$RC_WITHOUT"
git -C "$WT" apply "$OUT/patch.diff"
echo "--- checks"
/verif/tools/seed_check.sh "$OUT/patch.diff" "$@" | tee "$OUT/.checks"
echo "tests: $(cat $OUT/.tests | tr '\n' ' ') demo_with_rc=$RC_WITH demo_without_rc=$RC_WITHOUT"
