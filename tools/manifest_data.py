"""Per-property registration data for MANIFEST.json (edited by hand, see gen_manifest.py)."""
PBT = 'property-based testing (Hypothesis generated cases vs. reference model)'
FIX_COMMITS = ['3b9b3f9', '09d4a06', '1a3a570', '9a96315', 'deecdaa', '67fef07', '931a82b', '87c55a7',
               '0c4e4cd', 'da4ae4d', '861e788', 'ea1d2d0', '4912797', '915518f', '3c3b200', 'b0da763', '4d7258f', '76c24f0']
NOT_APPLICABLE = {}
CHECKS = {
    'C20': dict(
        level='exploration', design_ref='DESIGN.md 4/C20',
        technique=PBT + '; Fraction-arithmetic oracle; exhaustive enumeration of short sequences (thorough)',
        text='Generated event sequences (inc/dec/put/reset with small, negative, big and quarter-grid '
             'float amounts, malformed events, persistent restore) against a Fraction accumulator; '
             'thorough tier enumerates all 10^6 sequences of length 6 over a 10-operation alphabet. '
             'Exploration, not proof: arithmetic over unbounded numbers cannot be exhausted.',
        note='Trusts CPython arithmetic on the 1/4 float grid and the virtual event loop; the '
             'oracle is an independent Fraction model.'),
    'C19': dict(
        level='exploration', design_ref='DESIGN.md 4/C19',
        technique=PBT + '; exact Fraction oracle, round-trip relations, grammar of malformed strings, token-soup differential against a hand-written reading of the documented grammar; exhaustive integers 0..10^6 (thorough)',
        text='Duration strings rendered from generated unit parts in both notations (case, whitespace, '
             'decimal mark) are compared with exact unit arithmetic; timestr/timestr_approx round trips '
             'on integers dense at unit boundaries and decimal fractions; malformed strings from a '
             'grammar must raise ValueError; strings glued from the tokens of both notations by mutating a nearly valid '
             'skeleton must be accepted (with the right value) or rejected exactly as a hand-written recursive-descent '
             'reading of the documentation says. Thorough enumerates every integer up to 10^6.',
        note='Pure functions, no event loop involved. Tolerance 1e-9 relative for float results.'),
    'C13': dict(
        level='exploration', design_ref='DESIGN.md 4/C13',
        technique=PBT + '; metamorphic notation equivalence + round trip + independent integer membership model; exhaustive date/time range grids (thorough)',
        text='One numeric interval is rendered in several generated notations; all must normalise to the '
             'same sorted full-length list, survive as_list()/as_string() round trips and agree with an '
             'integer membership model at endpoints and neighbours; malformed specifications must raise. '
             'Thorough enumerates all 366^2 date ranges x 366 days and 1440^2 minute-grid time ranges.',
        note='Renderers avoid the two ambiguities the documentation itself warns about; parsing relies on '
             'CPython 3.12 datetime.fromisoformat for the ISO forms.'),
    'C16': dict(
        level='exploration', design_ref='DESIGN.md 4/C16',
        technique=PBT + '; fold model of the filter pipeline, exhaustive Edge truth table, dict-operation model for DataEdit chains (exhaustive <=4 ops in thorough)',
        text='Generated filter pipelines run through Event.send in a live circuit and are compared with a '
             'fold model (what every filter saw, what the destination got, send() result); the Edge table is '
             'enumerated completely in every run; Delta, not_from_undef, IfOutput, NotIfInitialized and '
             'add_output are checked against their documented predicates by name/object, before start and '
             'while running; DataEdit chains are compared with plain dict operations.',
        note='Filters are deterministic callables; the only trusted parts are the probe Recorder block and '
             'the virtual event loop.'),
    'C17': dict(
        level='exploration', design_ref='DESIGN.md 4/C17',
        technique=PBT + '; validator-set model (allowed AND check AND schema-does-not-raise), put histories incl. persistent restore and InputExp expiration on the virtual clock',
        text='Generated validator definitions over a small domain (one unhashable member), initdef/expired/'
             'restored values inside and outside the accepted set and put sequences; after every put the '
             'return value, output, internal state and stored persistent value are compared with the model; '
             'invalid initdef/expired must be refused by the constructor.',
        note='The expired output may be the raw argument or schema(argument) (not fixed by the property); '
             'validation of a restored InputExp value is not asserted.'),
    'C01': dict(
        level='exploration', design_ref='DESIGN.md 4/C01',
        technique=PBT + '; idle-invariant oracle (independent function table applied to a snapshot of the real outputs) + source prediction; exhaustive enumeration of all <=3-block boolean topologies x all vector-to-vector bursts (thorough)',
        text='Generated acyclic circuits (library CBlocks incl. Compare/Override/FuncBlock with groups, every '
             'reference style, generated creation order, CBlock->SBlock event feedback) driven by bursts of '
             'external events on the virtual loop; after wait_init() and after every burst each CBlock output '
             'is recomputed from the current outputs of its inputs by an independent function table. Thorough '
             'enumerates all topologies of <=3 Not/And/Or/Xor blocks over two boolean inputs with all 12 '
             'ordered input-vector changes.',
        note='Values are compared with == (the simulator does not propagate equal values); Compare behind a CBlock is '
             'held to the documented envelope only.'),
    'C18': dict(
        level='exploration', design_ref='DESIGN.md 4/C18',
        technique=PBT + '; set-valued discrete-event reference model of Repeat chains on the virtual clock (ties between an arrival and a repetition instant admit both orders)',
        text='Generated arrival patterns placed before / exactly at / after repetition instants, counts, '
             'matching and non-matching types, explicit, implicit and chained Repeat blocks, stop instant; the '
             'complete destination log (instant, type, all data items) must equal a sequence admitted by the '
             'reference model, the block outputs must equal the last repeat numbers, nothing may arrive and '
             'no task may remain after shutdown().',
        note='CPython 3.12 asyncio wait_for/Queue semantics; exact virtual time on a 0.5 s grid.'),
    'C02': dict(
        level='exploration', design_ref='DESIGN.md 4/C02',
        technique=PBT + '; own change detector + filter fold producing the expected global delivery log, compared item by item incl. object identity and synchronous-delivery marks',
        text='Generated output histories over a pool with equal-but-not-identical values (1/True/1.0, fresh '
             'tuples and lists, immediate repeats) for a sequential sender (on_output + on_every_output) and a '
             'combinational sender (FuncBlock behind an Input, one or several puts per evaluation), 0-3 events per '
             'trigger with 0-2 filters over shared recorders; the complete ordered delivery log, every data item '
             '(type-exact; previous/value by identity) and the position of the deliveries between the marks taken '
             'around set_output() are compared with the model.',
        note='NaN excluded; the result of Event.send() is not observable for output events.'),
    'C12': dict(
        level='exploration', design_ref='DESIGN.md 4/C12',
        technique=PBT + '; history invariants over the log of puts, coroutine starts/ends, result events and output changes on the virtual clock; bursts through InExecutor on a real loop meeting at a threading.Barrier; exhaustive arrival grid (thorough)',
        text='Generated arrival patterns (simultaneous, during a run, during guard time), run durations, failing runs, '
             'stop instant and generous/tight stop_timeout for the three modes; exactly one result event with the '
             'original put data per accepted event, FIFO/non-overlap (wait), single active run, cancellation only by a '
             'newer event and completion of the most recent one (cancel), start at arrival (start), guard_time '
             'separation, output == number of active runs at every change and 0 when idle, stop_data started last. '
             'Thorough enumerates all multisets of <=3 arrivals on a 7-point grid x durations x stop instants.',
        note='Completion, cancellation causes and stop_data order are asserted only with a generous stop_timeout, as the '
             'property conditions them on it. With a tight stop_timeout the clean-up must end within the largest '
             'stop_timeout of the circuit (guard time exempt); two ways in which it does not are recorded as open '
             'findings F18/F19 in known_findings.json (the check prints KNOWN-FINDING lines for them and exits 0; any '
             'other overrun is a violation).'),
    'C03': dict(
        level='exploration', design_ref='DESIGN.md 4/C03',
        technique=PBT + '; own interpreter of docs/FSM.rst run against FSM classes generated with type(); complete ordered log of hooks and events compared; exhaustive transition tables (thorough)',
        text='Generated FSM classes (rules in every notation, any-state / specific / forbidden, conditions, entry and exit '
             'actions as methods and instance callbacks, chained transitions requested once or twice, calc_output maps '
             'with UNDEF, on_enter/on_exit/on_notrans/on_output events) driven by histories of table events, unknown '
             'events and Goto with data; after every step return value, state, output and the complete ordered log '
             '(what every hook saw through fsm_event_data, state and output at that moment) must equal the reference '
             'interpreter. Thorough enumerates all 625 one-event tables x sequences of length 5 and all 390625 '
             'two-event tables x sequences of length 2 over 3 states.',
        note='instance callback / class method of one hook are compared as an unordered pair (documented freedom).'),
    'C04': dict(
        level='exploration', design_ref='DESIGN.md 4/C04',
        technique=PBT + '; discrete-event reference interpreter on the virtual clock, set-valued at ties between a driver action and an expiry; exhaustive duration x event grid (thorough)',
        text='Generic timed FSMs (durations 0, positive, INF, None with t_STATE or per-event override, unit strings, '
             'negative; timed event = table event that may be rejected, or Goto), Timer (t_on/t_off/t_period/restartable) '
             'and InputExp (duration, per-event duration) with external events placed before, exactly at and after the '
             'expiries, driven from a task and from timer callbacks; compared: log with virtual timestamps, state, '
             'output, get_state() expiry, number of live timer handles (<=1, 0 after stop), nothing delivered after stop.',
        note='Virtual time is exact on the 0.5 s grid; expiry reported by get_state() compared with 1e-4 s tolerance.'),
    'C11': dict(
        level='exploration', design_ref='DESIGN.md 4/C11',
        technique=PBT + '; synchronous depth-first propagation model with per-block busy flags (start-up included) over generated event graphs; nesting depth of event() measured by instance-level instrumentation',
        text='Generated event graphs (cycles, self-loops, diamonds) over relay probes, Inputs, Counters, two-state FSMs '
             '(plain, chained self-event, zero-length timer), Repeat and OutputFunc blocks with rejecting/passing/editing '
             'filters and EventCond, external sequences incl. unknown types and missing parameters; the model predicts '
             'exactly whether a busy block is hit (start-up verdict, per-step return value or EdzedCircuitError, '
             'Circuit.error) and the final state of every block; in non-fatal cases no block may keep its guard set.',
        note='The guard is tested before EventCond is evaluated (as the code and the property wording do).'),
    'C10': dict(
        level='exploration', design_ref='DESIGN.md 4/C10',
        technique=PBT + '; brute-force consistency oracle for cyclic boolean networks, evaluation counting by instrumented functions, exact path-count bound for acyclic networks',
        text='Generated cyclic boolean networks (brute force over all assignments decides whether a consistent state '
             'exists for each input vector), feedback loops closed through on_output events (inverting / non-inverting) '
             'and acyclic reconvergent DAGs whose source-to-block path total is within 3 x #blocks; required: '
             'instability EdzedCircuitError whenever no consistent state exists, at most 3N(+N) evaluations per burst, '
             'consistent outputs whenever the simulator is idle, never an instability error for the bounded DAGs.',
        note='Where a consistent state exists for a cyclic network either outcome is accepted. The actual number of '
             'evaluations of the bounded DAGs reaches at most ~2 x #blocks in the generated cases, so a limit only '
             'slightly below the documented one would not be noticed.'),
    'C14': dict(
        level='exploration', design_ref='DESIGN.md 4/C14',
        technique=PBT + '; lifecycle walk (7 phases x generated data shapes x termination kinds) with a delivery predicate and a data/return-value model; destination event() spied by instance-level instrumentation',
        text='One scenario per case walks through not started (optionally finalized), task created, initialising (async '
             'init in progress), running, aborting, cleaning up (async stop in progress) and finished; in every phase an '
             'ExtEvent with generated value/source/extra items is sent to a recorder, Input, Counter or FSM (by name or '
             'object). Delivered iff the simulation task has started and no error/stop is recorded; then the destination '
             'must receive exactly the sent items with value inserted and the source prefixed with _ext_ exactly when '
             'missing, and send() returns the handler result; otherwise EdzedInvalidState and no delivery; non-string '
             'source -> TypeError. User block names starting with an underscore must be refused; internal events carry '
             'the sender name.',
        note='Termination by shutdown(), abort(), failing handler, and the abort/shutdown control events.'),
    'C15': dict(
        level='exploration', design_ref='DESIGN.md 4/C15',
        technique=PBT + '; own name resolver + biconditional wiring invariants over all block pairs; negative cases with exactly one invalid element',
        text='Generated connection specifications (positional inputs, named singles, groups of size 0-3 with repeats; '
             'object / name / _not_ shortcut / Const / bare constant; Events and IfOutput / NotIfInitialized / '
             'DataEdit.add_output by name and by object), finalised explicitly or at start: every input must resolve to '
             'the expected object, each inverter exists once and is wired to its source, B in A.oconnections <=> A in '
             'B.iconnections <=> A feeds an input of B for all pairs, get_conf() and input_signature() agree, Event.dest '
             'and filter control blocks are the blocks of that name (also checked functionally while running), and the '
             'finalised circuit refuses new blocks, connect() and set_persistent_data(). 21 classes of invalid '
             'references must fail at construction, in finalize() or at start.',
        note='Cyclic wiring is generated only through constant-output probe blocks (it must still start).'),
    'C05': dict(
        level='exploration', design_ref='DESIGN.md 4/C05',
        technique=PBT + '; own model of the documented initialisation algorithm (verdict, outputs, per-block call log, duration of the asynchronous phase) + metamorphic relation over creation-order permutations',
        text='Generated per-block combinations of init sources (saved state valid/rejected, init_async ok/fail/never with '
             'init_timeout 0/2/5, init_regular, initdef), Input without initdef, ValuePoll (value, UNDEF first, async, '
             'raising), InitAsync, an acyclic init-time event topology, an optionally failing first evaluation (with a '
             'block having async clean-up), 1-2 wait_init() waiters; each configuration is started in up to 4 (thorough: '
             'all) creation orders. wait_init() must return iff the model predicts success, then with every output '
             'defined and equal to the predicted one at the predicted virtual instant (never later than the largest '
             'init_timeout), each routine called at most once and in the documented order, early synchronous '
             'initialisation before an init-time event is handled; the verdict must not depend on the creation order.',
        note='No tie between a completion and a time-out is generated.'),
    'C09': dict(
        level='exploration', design_ref='DESIGN.md 4/C09',
        technique=PBT + '; order-of-delivery model of the first fatal source over generated timelines (several sources per virtual instant, in both entry points)',
        text='Generated timelines of fatal sources (failing handler called by a catching caller, calc_output error, handler '
             'failing inside the simulator task, abort(exc), abort/shutdown control events, abort(CancelledError), a '
             'monitored block task failing at an off-grid instant, abort before the start) and benign stimuli (unknown '
             'type, missing parameter, non-string source; failing init_async, _restore_state, stop, stop_async) run '
             'through edzed.run() with a returning/failing supporting task or through run_forever()+shutdown(); the first '
             'source in order of delivery must determine Circuit.error (and __cause__), the exception of run_forever(), '
             'shutdown() and run(); benign stimuli leave is_ready() True; afterwards the error is never replaced, the '
             'circuit stays not ready and cannot be restarted.',
        note='A calc_output error is delivered when the simulator task next runs and therefore loses against sources of the same driver step.'),
    'C08': dict(
        level='fault_enumeration', design_ref='DESIGN.md 4/C08',
        technique=PBT + ' with generated fault injection (fault site x termination cause x instant x entry point); history invariants over the start/stop/stop_async call log (instance-level instrumentation) and a census of pending tasks and timer handles',
        text='Generated circuits of probe blocks with scripted failures (start, restore, init_async, init_regular, '
             'init_from_value, event handler, main task, stop, stop_async raising or exceeding stop_timeout) and library '
             'blocks owning tasks or timers (Timer, Repeat, ValuePoll, OutputAsync, OutputFunc, TimeDate/cron, InputExp, '
             'failing FuncBlock), terminated by shutdown(), a returning/failing supporting task, SIGTERM, Event.shutdown(), '
             'Event.abort(), abort(), abort before start or the fault itself, at instants during async initialisation, '
             'normal operation, and again during asynchronous clean-up, through run() and run_forever(). Checked: stop() '
             'exactly once on exactly the started blocks, stop before stop_async, all asynchronous clean-up finished (within '
             'the largest stop_timeout) before synchronous blocks are stopped, no pending task or timer handle and no '
             'activity after the end, stop_data processed last, terminal state (no restart, no new block, no connect, no '
             'storage change, not ready).',
        note='Which blocks count as started is taken from the instrumentation (start() returned).'),
    'C07': dict(
        level='exploration', design_ref='DESIGN.md 4/C07',
        technique=PBT + '; independent calendar predicate in integer microseconds on a virtual wall clock with modelled clock-read, wake-up and blocking-work latency; exhaustive sub-millisecond start grid (thorough)',
        text='TimeDate and TimeSpan blocks (local UTC+offset and UTC schedulers, 1-5 blocks) with generated times, dates, '
             'weekdays and spans are started at instants placed microseconds to hours before a boundary (Dec 31, Feb 28/29, '
             'mid-year), then driven through sleeps of up to a day, waits until just after a boundary, reconfig events placed '
             '0-3 ms before/after a boundary of the same or another block and forward clock jumps of 30 s - 1 h (also placed '
             'in the last hour before midnight); every clock read, wake-up and (re)configuration costs a generated latency. '
             'Outputs are compared with the calendar predicate after every step, except within 60 ms of a boundary and '
             'during the hour after a jump; a jump must never stop the simulation.',
        note='Fixed-offset local time zone; no real-time scheduling jitter beyond the modelled latencies.'),
    'C06': dict(
        level='fault_enumeration', design_ref='DESIGN.md 4/C06',
        technique=PBT + ' with enumerated crash points: every storage snapshot of a generated history x generated downtimes is restarted on a virtual wall clock; round-trip (crash/restart) oracle plus a control run with empty storage',
        text='Circuits of persistent Input / Counter / Timer / InputExp / generated timed FSM (sdata, entry actions, chained '
             'transitions) / TimeDate / TimeSpan blocks with sync_state on/off, expiration None/<=0/short/long and '
             'pre-existing storage content are driven through generated histories (events incl. rejected and malformed '
             'ones, a failing handler, waits that let timers fire) ending in a regular stop, abort() or a failed start(). '
             'After initialisation, after every step and at the stop the stored entry must deep-equal get_state() (sync on) '
             'or stay untouched (sync off / after a handler error / failed start); the stop writes all states and the stop '
             'timestamp. Restarts from the snapshots after downtimes on both sides of the remaining timer and of the '
             'expiration must restore state, sdata, output and the absolute expiry (observed 5 ms before/after it) without '
             're-running entry actions, or initialise normally when the timer ran out or the state expired; unused keys '
             'are removed, edzed-* keys kept.',
        note='Normal initialisation is taken from a control run with an empty storage at the same wall time.'),
}
