"""Per-property registration data for MANIFEST.json (edited by hand, see gen_manifest.py)."""
PBT = 'property-based testing (Hypothesis generated cases vs. reference model)'
FIX_COMMITS = []
NOT_APPLICABLE = {}
CHECKS = {
    'C20': dict(
        level='exploration', design_ref='DESIGN.md 4/C20',
        technique=PBT + '; Fraction-arithmetic oracle; exhaustive enumeration of short sequences (thorough)',
        text='Generated event sequences (inc/dec/put/reset with small, negative, big and quarter-grid '
             'float amounts, malformed events, persistent restore) against a Fraction accumulator; '
             'thorough tier enumerates all 10^6 sequences of length 6 over a 10-operation alphabet. '
             'Exploration, not proof: arithmetic over unbounded numbers cannot be exhausted.',
        note='Trusts CPython arithmetic on the 1/4 float grid and the virtual event loop; the '
             'oracle is an independent Fraction model.'),
}
