#!/usr/bin/env python3
"""usage: mkmutant.py <PROP> <name> <file relative to repo> <<< "OLD\n=====\nNEW"
Writes mutants/<PROP>/<name>.patch (unified diff against /repo HEAD working tree)."""
import difflib, os, sys
prop, name, rel = sys.argv[1:4]
old, new = sys.stdin.read().split('\n=====\n')
new = new.rstrip('\n')
old = old.rstrip('\n')
src = open(os.path.join('/repo', rel)).read()
assert src.count(old) == 1, f"old text found {src.count(old)} times"
mut = src.replace(old, new)
diff = ''.join(difflib.unified_diff(src.splitlines(True), mut.splitlines(True), 'a/' + rel, 'b/' + rel))
d = os.path.join(os.path.dirname(os.path.dirname(os.path.abspath(__file__))), 'mutants', prop)
os.makedirs(d, exist_ok=True)
open(os.path.join(d, name + '.patch'), 'w').write(diff)
print('wrote', name)
