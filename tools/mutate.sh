#!/bin/sh
# usage: tools/mutate.sh <ID> <patch> [-R] [--tests] [-- extra check args]
# Copies /repo to a scratch dir outside /repo and /verif, applies the patch (-R: reversed,
# used to re-introduce a fixed defect), optionally runs the repository's tests there,
# runs the quick check against the copy and removes the copy.
ID=$1; PATCH=$(realpath "$2"); shift 2
REV=""; TESTS=0
while [ $# -gt 0 ]; do
  case "$1" in -R) REV="-R";; --tests) TESTS=1;; --) shift; break;; esac; shift
done
DIR=$(mktemp -d /tmp/mut.XXXXXX)
trap 'rm -rf "$DIR"' EXIT
git -C /repo archive HEAD | tar -x -C "$DIR"
# uncommitted changes of /repo are intentionally not copied
( cd "$DIR" && patch -p1 $REV -s < "$PATCH" ) || { echo "patch failed"; exit 3; }
if [ $TESTS = 1 ]; then /verif/tools/runtests.sh "$DIR" | tail -2; fi
cd /verif && VERIF_REPO="$DIR" VERIF_EVIDENCE_DIR="$DIR/_evidence" ./check "$ID" --tier "${VERIF_TIER:-quick}" "$@"
rc=$?
echo "mutant $(basename "$PATCH") $REV on $ID: exit $rc"
exit $rc
