#!/bin/sh
# usage: tools/verify_preserving.sh <ID>   (worktree /tmp/seedP_<ID>)
# Store a behaviour-preserving refactoring written by a sub-agent as preserving/<ID>/ (patch.diff,
# note.md), run the repository's tests with it and all twenty quick checks against it.
# Expected: every check exits 0 - an alarm is either an over-constrained oracle (to be corrected) or a
# change that does break a property after all (then it is documented as such).
ID=$1
WT=/tmp/seedP_$ID
OUT=/verif/preserving/$ID
mkdir -p "$OUT"
git -C "$WT" diff -- edzed > "$OUT/patch.diff"
[ -s "$OUT/patch.diff" ] || { echo "no change in $WT"; exit 3; }
cp "$WT/seed_note.md" "$OUT/note.md" 2>/dev/null
/verif/tools/runtests.sh "$WT" | tail -2 | tr '\n' ' ' > "$OUT/.tests"; echo >> "$OUT/.tests"
cat "$OUT/.tests"
/verif/tools/seed_check.sh "$OUT/patch.diff" > "$OUT/.checks" 2>&1
grep -v "exit=0" "$OUT/.checks"
echo "$ID: $(grep -c 'exit=0' "$OUT/.checks") checks quiet"
