#!/bin/sh
# Re-run all twenty quick checks against every behaviour-preserving refactoring in preserving/<ID>/patch.diff.
# Expected: every check exits 0 on every patch. Writes preserving/README.md.
cd /verif || exit 2
bad=0
for d in preserving/*/; do
  id=$(basename "$d")
  [ -f "$d/patch.diff" ] || continue
  tools/seed_check.sh "$d/patch.diff" > "$d/.checks" 2>&1
  n=$(grep -c 'exit=0' "$d/.checks")
  echo "$id: $n of 20 checks quiet"
  grep -v 'exit=0' "$d/.checks" && bad=1
done
{
echo "# Behaviour-preserving refactorings (false-alarm test)"
echo
echo "Each directory holds a patch written by a sub-agent that saw only the text of one property and a scratch"
echo "worktree of /repo and was asked for a realistic internal clean-up (3-6 independent changes in the code the"
echo "property is anchored in, at least one touching an ordering / timing / error-handling detail that the"
echo "documentation does not promise) that keeps the property and all documented behaviour; \`note.md\` is the"
echo "author's argument. All 249 tests pass with each patch. Expectation: all twenty quick checks stay quiet"
echo "(\`tools/all_preserving.sh\`). None of these patches is ever committed to /repo."
echo
echo "| patch (anchored in) | files touched | checks quiet | remark |"
echo "|---|---|---|---|"
for d in preserving/*/; do
  id=$(basename "$d")
  files=$(grep '^+++ b/' "$d/patch.diff" | sed 's#+++ b/edzed/##' | tr '\n' ' ')
  n=$(grep -c 'exit=0' "$d/.checks")
  rem=$(cat "$d/.remark" 2>/dev/null)
  echo "| $id | $files | $n / 20 | $rem |"
done
} > preserving/README.md
exit $bad
