#!/bin/sh
# Run the repository's test suite (BASELINE command); timing tests are load sensitive,
# so tests that fail are re-run once on their own before the result counts.
cd "${1:-/repo}" || exit 2
OUT=$(mktemp)
/venv/bin/python -m pytest -ra -q -p no:cacheprovider --timeout=900 --continue-on-collection-errors >"$OUT" 2>&1
rc=$?
tail -2 "$OUT"
if [ $rc -ne 0 ]; then
    FAILED=$(grep -E '^(FAILED|ERROR) tests/' "$OUT" | awk '{print $2}' | sort -u)
    echo "re-running: $FAILED"
    /venv/bin/python -m pytest -q -p no:cacheprovider --timeout=900 $FAILED 2>&1 | tail -3
    rc=$?
    /venv/bin/python -m pytest -q -p no:cacheprovider --timeout=900 $FAILED >/dev/null 2>&1
    rc=$?
fi
rm -f "$OUT"
echo "tests rc=$rc"
exit $rc
