#!/bin/sh
# Run the repository's test suite (BASELINE command, with tighter time-outs so that a mutant that
# makes a test hang does not block the tooling); timing tests are load sensitive, so tests that
# fail are re-run once on their own before the result counts.
cd "${1:-/repo}" || exit 2
OUT=$(mktemp)
timeout -k 5 600 /venv/bin/python -m pytest -ra -q -p no:cacheprovider --timeout=60 --continue-on-collection-errors >"$OUT" 2>&1
rc=$?
tail -2 "$OUT"
if [ $rc -ne 0 ]; then
    FAILED=$(grep -E '^(FAILED|ERROR) tests/' "$OUT" | awk '{print $2}' | sort -u)
    echo "re-running: $FAILED"
    if [ -n "$FAILED" ]; then
        timeout -k 5 300 /venv/bin/python -m pytest -q -p no:cacheprovider --timeout=60 $FAILED 2>&1 | tail -3
        timeout -k 5 300 /venv/bin/python -m pytest -q -p no:cacheprovider --timeout=60 $FAILED >/dev/null 2>&1
        rc=$?
    fi
fi
rm -f "$OUT"
echo "tests rc=$rc"
exit $rc
