#!/bin/sh
# usage: tools/seed_check.sh <patch> [ID ...]
# Apply a patch to a scratch copy of /repo (HEAD) and run the quick checks (all, or the listed ones)
# against it in parallel; prints one line per check: exit status and the first violated clause.
PATCH=$(realpath "$1"); shift
IDS=${*:-C01 C02 C03 C04 C05 C06 C07 C08 C09 C10 C11 C12 C13 C14 C15 C16 C17 C18 C19 C20}
DIR=$(mktemp -d /tmp/seedchk.XXXXXX)
trap 'rm -rf "$DIR"' EXIT
git -C /repo archive HEAD | tar -x -C "$DIR"
( cd "$DIR" && patch -p1 -s < "$PATCH" ) || { echo "patch failed"; exit 3; }
mkdir -p "$DIR/_out"
cd /verif || exit 2
for id in $IDS; do
  ( VERIF_REPO="$DIR" VERIF_EVIDENCE_DIR="$DIR/_ev" ./check "$id" --tier "${VERIF_TIER:-quick}" > "$DIR/_out/$id.log" 2>&1; echo "$?" > "$DIR/_out/$id.rc" ) &
done
wait
for id in $IDS; do
  rc=$(cat "$DIR/_out/$id.rc")
  echo "$id exit=$rc $(grep -m1 -E '^  clause|HARNESS' "$DIR/_out/$id.log" | cut -c1-220)"
done
