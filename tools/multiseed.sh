#!/bin/sh
# usage: tools/multiseed.sh <first seed> <last seed> [ID ...]  -- quick tier of every check at several seeds
# (16 at a time); prints only runs that did not exit 0.  Evidence goes to a scratch directory.
A=$1; B=$2; shift 2
IDS=${*:-C01 C02 C03 C04 C05 C06 C07 C08 C09 C10 C11 C12 C13 C14 C15 C16 C17 C18 C19 C20}
OUT=$(mktemp -d /tmp/multiseed.XXXXXX)
n=0
for seed in $(seq $A $B); do
  for id in $IDS; do
    ( VERIF_SEED=$seed VERIF_EVIDENCE_DIR=$OUT/ev_$seed ./check $id --tier quick > $OUT/$id.$seed.log 2>&1; echo $? > $OUT/$id.$seed.rc ) &
    n=$((n+1))
    if [ $((n % 16)) -eq 0 ]; then wait; fi
  done
done
wait
bad=0
for f in $OUT/*.rc; do
  rc=$(cat $f)
  if [ "$rc" != "0" ]; then bad=$((bad+1)); echo "== $(basename $f .rc) exit=$rc"; grep -E "clause|HARNESS|Error" ${f%.rc}.log | head -3; fi
done
echo "runs: $n, not ok: $bad"
rm -rf $OUT
