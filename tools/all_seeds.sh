#!/bin/sh
# Re-run every seeded patch against all quick checks (sequentially, each with 20 checks in parallel),
# refresh seeded/<id>/.checks, meta.json (checks_reporting_it) and seeded/README.md.
cd /verif || exit 2
for d in seeded/*/; do
  id=$(basename "$d")
  [ -f "$d/patch.diff" ] || continue
  tools/seed_check.sh "$d/patch.diff" > "$d/.checks" 2>&1
  python3 - "$id" <<'PY'
import json, re, sys, os
sid = sys.argv[1]
d = os.path.join('/verif/seeded', sid)
m = json.load(open(os.path.join(d, 'meta.json')))
checks = {}
for line in open(os.path.join(d, '.checks')):
    mm = re.match(r'(C\d\d) exit=(\d+)\s*(.*)', line)
    if mm:
        checks[mm.group(1)] = (int(mm.group(2)), mm.group(3).replace('clause ', '').strip()[:200])
m['checks_reporting_it'] = {k: v[1] for k, v in sorted(checks.items()) if v[0] == 1}
m['checks_silent'] = sorted(k for k, v in checks.items() if v[0] == 0)
m['checks_other_exit'] = {k: v for k, v in checks.items() if v[0] not in (0, 1)}
json.dump(m, open(os.path.join(d, 'meta.json'), 'w'), indent=1)
own = m['breaks_property'] in m['checks_reporting_it']
print(sid, 'own check reports it' if own else 'OWN CHECK SILENT', sorted(m['checks_reporting_it']), m['checks_other_exit'])
PY
done
python3 - <<'PY'
import json, glob, os
rows = []
for f in sorted(glob.glob('/verif/seeded/*/meta.json')):
    m = json.load(open(f))
    rows.append(f"| {m['seed']} | {m['breaks_property']} | {m['needs_to_manifest']} | "
                f"{', '.join(m['checks_reporting_it']) or 'none'} | {m.get('remark', '')} |")
open('/verif/seeded/README.md', 'w').write(
    "# Independently written breaking changes\n\nEach directory holds `patch.diff` (against /repo HEAD at the time), "
    "`demo.py` (fails with the patch, passes without), the author's `note.md` and `meta.json`.\n"
    "None of these patches is ever committed to /repo. Suffix b..j = rounds 2..10 (round 10: ten properties only). For the rounds e to j only the check of the seed's own property was run when the seed was stored, so the column lists that check alone; `tools/all_seeds.sh` fills in the other checks, `tools/seeds_own.sh` re-runs the own checks at several seeds.\n\n"
    "| seed | property | needs to manifest | reported by (quick tier, current checks) | remark |\n|---|---|---|---|---|\n"
    + '\n'.join(rows) + '\n')
PY
