#!/usr/bin/env python3
"""usage: seed_meta.py <ID> <property broken> "<what it needs to manifest>" ["<remark>"]
Writes seeded/<ID>/meta.json from the files left by tools/verify_seed.sh and refreshes seeded/README.md"""
import json, os, re, sys, glob
root = os.path.dirname(os.path.dirname(os.path.abspath(__file__)))
sid, prop, needs = sys.argv[1:4]
remark = sys.argv[4] if len(sys.argv) > 4 else ''
d = os.path.join(root, 'seeded', sid)
checks = {}
for line in open(os.path.join(d, '.checks')):
    m = re.match(r'(C\d\d) exit=(\d+)\s*(.*)', line)
    if m:
        checks[m.group(1)] = {'exit': int(m.group(2)), 'clause': m.group(3).replace('clause ', '').strip()[:200]}
meta = {
    'seed': sid, 'breaks_property': prop, 'needs_to_manifest': needs,
    'origin': 'written by a sub-agent that saw only the text of the property and a scratch worktree of /repo',
    'files': {'patch': 'patch.diff', 'demonstration': 'demo.py (run from the root of a tree with the patch applied)',
              'agent_note': 'note.md'},
    'verified': {
        'existing_tests_with_patch': open(os.path.join(d, '.tests')).read().strip().replace('\n', '; '),
        'demo_with_patch': 'fails: ' + open(os.path.join(d, '.demo_with')).read().strip().splitlines()[-1][:200],
        'demo_without_patch': 'passes: ' + open(os.path.join(d, '.demo_without')).read().strip().splitlines()[-1][:120],
        'how': 'tools/verify_seed.sh ' + sid + ' (tests and demo in the scratch worktree; checks via tools/seed_check.sh '
               'against a scratch copy of /repo HEAD with the patch applied, quick tier, VERIF_SEED=1)'},
    'checks_reporting_it': {k: v['clause'] for k, v in sorted(checks.items()) if v['exit'] == 1},
    'checks_silent': sorted(k for k, v in checks.items() if v['exit'] == 0),
    'checks_other_exit': {k: v for k, v in checks.items() if v['exit'] not in (0, 1)},
    'remark': remark,
}
json.dump(meta, open(os.path.join(d, 'meta.json'), 'w'), indent=1)
# README table
rows = []
for f in sorted(glob.glob(os.path.join(root, 'seeded', '*', 'meta.json'))):
    m = json.load(open(f))
    rows.append(f"| {m['seed']} | {m['breaks_property']} | {m['needs_to_manifest']} | "
                f"{', '.join(m['checks_reporting_it']) or 'none'} | {m.get('remark', '')} |")
open(os.path.join(root, 'seeded', 'README.md'), 'w').write(
    "# Independently written breaking changes\n\nEach directory holds `patch.diff` (against /repo HEAD at the time), "
    "`demo.py` (fails with the patch, passes without), the author's `note.md` and `meta.json`.\n"
    "None of these patches is ever committed to /repo. Suffix b..j = rounds 2..10 (round 10: ten properties only). For the rounds e to j only the check of the seed's own property was run when the seed was stored, so the column lists that check alone; `tools/all_seeds.sh` fills in the other checks, `tools/seeds_own.sh` re-runs the own checks at several seeds.\n\n"
    "| seed | property | needs to manifest | reported by (quick tier) | remark |\n|---|---|---|---|---|\n"
    + '\n'.join(rows) + '\n')
print(json.dumps(meta['checks_reporting_it'], indent=1))
