#!/bin/sh
# usage: tools/verify_preserving2.sh <KEY>   (worktree /tmp/seedQ_<KEY>) -> preserving/<KEY>/
KEY=$1
WT=/tmp/seedQ_$KEY
OUT=/verif/preserving/$KEY
mkdir -p "$OUT"
git -C "$WT" diff -- edzed > "$OUT/patch.diff"
[ -s "$OUT/patch.diff" ] || { echo "no change in $WT"; exit 3; }
cp "$WT/seed_note.md" "$OUT/note.md" 2>/dev/null
/verif/tools/runtests.sh "$WT" | tail -2 | tr '\n' ' ' > "$OUT/.tests"; echo >> "$OUT/.tests"
cat "$OUT/.tests"
/verif/tools/seed_check.sh "$OUT/patch.diff" > "$OUT/.checks" 2>&1
grep -v "exit=0" "$OUT/.checks"
echo "$KEY: $(grep -c 'exit=0' "$OUT/.checks") checks quiet"
