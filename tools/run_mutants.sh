#!/bin/sh
# usage: tools/run_mutants.sh <ID> [--tests]   -- run the quick check against every mutants/<ID>/*.patch
# (expected: exit 1 = caught) and every mutants/P/<ID>_*.patch (expected: exit 0), in parallel.
ID=$1; shift
cd /verif || exit 2
OUT=$(mktemp -d /tmp/mutres.XXXXXX)
for p in mutants/$ID/*.patch mutants/P/${ID}_*.patch; do
  [ -f "$p" ] || continue
  ( tools/mutate.sh "$ID" "$p" "$@" > "$OUT/$(basename "$p").log" 2>&1 ) &
done
for p in mutants/fixes/*_${ID}.patch; do
  [ -f "$p" ] || continue
  ( tools/mutate.sh "$ID" "$p" -R "$@" > "$OUT/$(basename "$p").log" 2>&1 ) &
done
wait
for f in "$OUT"/*.log; do
  echo "== $(basename "$f" .log): $(grep -E '^mutant .* exit' "$f") $(grep -E 'tests rc=|passed|failed' "$f" | tr '\n' ' ')"
  grep -E '^  clause|HARNESS' "$f" | head -2
done
rm -rf "$OUT"
