#!/usr/bin/env python3
"""Regenerate MANIFEST.json from tools/manifest_data.py (claimed checks) + properties.jsonl."""
import json, os, sys
root = os.path.dirname(os.path.dirname(os.path.abspath(__file__)))
sys.path.insert(0, os.path.join(root, 'tools'))
from manifest_data import CHECKS, NOT_APPLICABLE, FIX_COMMITS
props = [json.loads(l)['id'] for l in open(os.path.join(root, 'properties.jsonl'))]
checks = []
for pid in props:
    if pid not in CHECKS:
        continue
    c = CHECKS[pid]
    checks.append({
        'property_id': pid,
        'quick_cmd': f'./check {pid} --tier quick',
        'thorough_cmd': f'./check {pid} --tier thorough',
        'evidence_file': f'evidence/{pid}.json',
        'replay_cmd_template': f'./check {pid} --replay {{path}}',
        'engine': 'vf',
        'level_claimed': {'category': c['level'], 'text': c['text'], 'design_ref': c['design_ref']},
        'level_note': c['note'],
        'technique': c['technique'],
    })
na = [{'property_id': p, 'reason': NOT_APPLICABLE.get(p, 'check not built yet (work in progress)')}
      for p in props if p not in CHECKS]
manifest = {
    'version': 1,
    'setup_cmd': './setup.sh',
    'hooks': {
        'guard': 'EDZED_VERIF',
        'enable': 'no source hooks: all instrumentation is done from the harness (probe blocks, '
                  'virtual event loop, module-attribute substitution of time/datetime); the guard '
                  'variable is reserved and unused',
        'baseline_off_cmd': 'cd /repo && /venv/bin/python -m pytest -ra -q -p no:cacheprovider --timeout=900 --continue-on-collection-errors',
        'source_commits': [],
        'add_only': True,
    },
    'engines': [{
        'name': 'vf', 'path': 'vf/',
        'serves_properties': [c['property_id'] for c in checks],
        'kind_free_text': 'Hypothesis-driven generated-input search (plus exhaustive enumeration of '
                          'finite sub-domains) of JSON case descriptors, executed against the real '
                          'edzed on a virtual-time asyncio loop and judged by independent reference models',
    }],
    'checks': checks,
    'not_applicable': na,
    'notes': 'fix: commits in /repo (genuine defects found by these checks, see known_findings.json): '
             + ', '.join(FIX_COMMITS) + '; open findings recorded there and in DESIGN.md section 5: F18, F19 (C12, '
             'OutputAsync clean-up not bounded by stop_timeout)' if FIX_COMMITS else 'no repository changes yet',
}
json.dump(manifest, open(os.path.join(root, 'MANIFEST.json'), 'w'), indent=1)
print('MANIFEST.json written:', len(checks), 'checks,', len(na), 'not claimed')
