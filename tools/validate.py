#!/usr/bin/env python3
"""Validate MANIFEST.json and evidence/*.json against the given schemas (run with python3-vt)."""
import glob, json, sys, os
import jsonschema
root = os.path.dirname(os.path.dirname(os.path.abspath(__file__)))
ok = True
man = json.load(open(os.path.join(root, 'MANIFEST.json')))
try:
    jsonschema.validate(man, json.load(open('/root/.vp/MANIFEST.schema.json')))
    print('MANIFEST ok:', len(man['checks']), 'checks')
except jsonschema.ValidationError as e:
    ok = False; print('MANIFEST INVALID', e.message)
sch = json.load(open('/root/.vp/EVIDENCE.schema.json'))
for f in sorted(glob.glob(os.path.join(root, 'evidence', '*.json'))):
    try:
        jsonschema.validate(json.load(open(f)), sch); print('ok', os.path.basename(f))
    except jsonschema.ValidationError as e:
        ok = False; print('INVALID', f, e.message)
props = [json.loads(l)['id'] for l in open(os.path.join(root, 'properties.jsonl'))]
claimed = {c['property_id'] for c in man['checks']}
na = {c['property_id'] for c in man.get('not_applicable', [])}
for p in props:
    if p not in claimed and p not in na:
        ok = False; print('property neither claimed nor not_applicable:', p)
sys.exit(0 if ok else 1)
