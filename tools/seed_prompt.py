#!/usr/bin/env python3
"""usage: seed_prompt.py <ID>   -- print the brief given to a seeding sub-agent for property <ID>.
The agent sees the property text, its scratch worktree /tmp/seed_<ID> and one line per idea that
earlier rounds already used for this property (so that it looks elsewhere) - nothing from /verif."""
import json, glob, os, sys
root = os.path.dirname(os.path.dirname(os.path.abspath(__file__)))
pid = sys.argv[1]
prop = None
for line in open(os.path.join(root, 'properties.jsonl')):
    p = json.loads(line)
    if p['id'] == pid:
        prop = p
used = []
for f in sorted(glob.glob(os.path.join(root, 'seeded', pid + '*', 'meta.json'))):
    m = json.load(open(f))
    if m['breaks_property'] == pid:
        used.append(m['needs_to_manifest'])
wt = '/tmp/seed_' + pid
print(f"""You are helping to evaluate a verification effort for the Python library xitop/edzed (asyncio
library for small automation systems: event-driven zero-delay circuit simulator with combinational and
sequential blocks, timed FSMs, cron-like scheduling, persistent state). You have your own scratch git
worktree of the library at {wt} (work ONLY there; never touch /repo or /verif and do not read
/verif). Python: /venv/bin/python. The existing test suite is run with
`cd {wt} && /venv/bin/python -m pytest -q -p no:cacheprovider --timeout=900 tests` (about 25 s;
tests/test_outputasync.py::test_executor* are known to be flaky, timing tests may fail under load -
re-run a failing timing test once before you conclude anything).

This semantic property of the library is supposed to hold (JSON record):

{json.dumps(prop, indent=1, ensure_ascii=False)}

Your task: make ONE realistic change to the library source under {wt}/edzed (the kind of slip a
maintainer could make in a refactoring, an optimisation or a "simplification" - a few lines, may touch
two cooperating sites that each look fine alone) such that

 1. the library still imports and the whole existing test suite still passes with the change,
 2. the property above is broken by it, and
 3. the breakage needs something SPECIFIC to manifest: a particular interleaving or instant, a fault
    or cancellation at a particular point, a multi-step sequence of operations, an unusual but legal
    input or combination of arguments / block types, leaked state from an earlier operation, or two
    cooperating sites. NOT something that ordinary use would expose at once.

Ideas that were already used for this property in earlier rounds - do NOT repeat them or close
variants; pick another clause of the property, another code site and another trigger:
""" + '\n'.join(f' - {u}' for u in used) + f"""

Deliver, all inside {wt}:
 * the change itself left UNCOMMITTED in the working tree (only files under edzed/ modified; do not
   modify tests/ or docs/),
 * `{wt}/seed_demo.py`: a small stand-alone program (run as `cd {wt} && /venv/bin/python seed_demo.py`,
   importing edzed from the current directory, real-time asyncio, finishing within ~20 s) that exits
   non-zero (assertion) WITH your change and prints OK and exits 0 WITHOUT it (check both with
   `git diff -- edzed > /tmp/seed_{pid}.patch; git apply -R /tmp/seed_{pid}.patch; ...; git apply /tmp/seed_{pid}.patch`
   - do NOT use `git stash`: the stash is shared between all worktrees of the repository and other
   jobs are working in sibling worktrees at the same time). It must use only documented/public behaviour to show the breakage.
 * `{wt}/seed_note.md`: a few lines - which clause of the property is broken, what exactly is needed
   for it to manifest, why the test suite does not notice.

Before finishing, verify yourself: full test suite passes with the change; demo fails with it and passes
without it; leave the change applied. Answer with a three-line summary (site changed, trigger, the
demo's failure message).""")
